//! Supplementary pass for C06/C12 under Miri: runs generated ledgers through the real
//! loader, book-keeping and queries inside the interpreter, which checks every memory access
//! of okane-core and of the dependencies it drives (bumpalo arena, hashbrown, winnow) for
//! undefined behaviour and reports leaked allocations at exit.
//!
//! usage: okane-miri-probe <cases file> <shard> <shards>
//! cases file: ledgers separated by a line holding only `%%%%`.

use std::collections::HashMap;
use std::path::PathBuf;

use bumpalo::Bump;
use okane_core::load::{FakeFileSystem, Loader};
use okane_core::report::{self, query, ReportContext};

fn main() {
    let args: Vec<String> = std::env::args().collect();
    let text = std::fs::read_to_string(&args[1]).expect("cases file");
    let shard: usize = args[2].parse().unwrap();
    let shards: usize = args[3].parse().unwrap();
    let cases: Vec<&str> = text.split("\n%%%%\n").collect();
    let mut ran = 0;
    for (k, case) in cases.iter().enumerate() {
        if k % shards != shard || case.trim().is_empty() {
            continue;
        }
        let mut files = HashMap::new();
        files.insert(PathBuf::from("/mem/root.ledger"), case.as_bytes().to_vec());
        let arena = Bump::new();
        let mut ctx = ReportContext::new(&arena);
        let loader = Loader::new(PathBuf::from("/mem/root.ledger"), FakeFileSystem::from(files));
        let outcome = match report::process(&mut ctx, loader, &report::ProcessOptions::default()) {
            Ok(mut ledger) => {
                let mut n = 0usize;
                if let Ok(b) = ledger.balance(&ctx, &query::BalanceQuery::default()) {
                    for (a, amt) in b.into_owned().into_vec() {
                        n += a.as_str().len() + amt.as_inline_display().to_string().len();
                    }
                }
                let q = query::BalanceQuery {
                    conversion: None,
                    date_range: query::DateRange { start: chrono::NaiveDate::from_ymd_opt(2024, 1, 3), end: chrono::NaiveDate::from_ymd_opt(2024, 1, 20) },
                };
                if let Ok(b) = ledger.balance(&ctx, &q) {
                    n += b.into_owned().into_vec().len();
                }
                n += ledger.postings(&ctx, &query::PostingQuery { account: None }).len();
                n += ledger.transactions().count();
                format!("accepted {}", n)
            }
            Err(e) => format!("rejected {}", e.to_string().len()),
        };
        // the formatter (parser + printer) on the same text
        let mut formatted: Vec<u8> = Vec::new();
        let fmt = match okane_core::format::FormatOptions::new().format(&mut case.as_bytes(), &mut formatted) {
            Ok(()) => format!("formatted {}", formatted.len()),
            Err(e) => format!("format-error {}", e.to_string().len()),
        };
        println!("CASE {} {} {}", k, outcome, fmt);
        ran += 1;
    }
    println!("DONE {}", ran);
}
