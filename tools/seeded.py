#!/usr/bin/env python3
"""Handling of seeded defects (changes to okane written by independent sub-agents).

  seeded.py verify <worktree> <mutant-dir>
        In the scratch worktree: demo.sh on the clean tree must exit 0; with the patch applied the
        unedited test suite must pass and demo.sh must exit non-zero. Prints a JSON verdict.
  seeded.py keep <id> <property> <worktree> <mutant-dir> "<needs>"
        Copies patch.diff, demo.sh, NOTES.md into /verif/seeded/<id>/ and writes meta.json
        (after a successful verify).
  seeded.py detect <id> <check> [<check> ...] [--tier quick|thorough] [--seed N]
        Applies /verif/seeded/<id>/patch.diff to /repo, runs the listed checks, undoes the patch,
        and records the outcome in /verif/seeded/<id>/meta.json under "detection".
"""
import json
import os
import re
import shutil
import subprocess
import sys
import time

VERIF = "/verif"
REPO = "/repo"
ENV = dict(os.environ, CARGO_NET_OFFLINE="true")


def sh(cmd, cwd=None, timeout=3600):
    p = subprocess.run(cmd, cwd=cwd, shell=isinstance(cmd, str), stdout=subprocess.PIPE, stderr=subprocess.STDOUT,
                       text=True, env=ENV, timeout=timeout)
    return p.returncode, p.stdout


def clean(tree):
    sh("git checkout -- . && git clean -fdq -e mutants -e target", cwd=tree)


def verify(tree, mdir):
    patch = os.path.join(mdir, "patch.diff")
    demo = os.path.join(mdir, "demo.sh")
    out = {"patch": patch}
    clean(tree)
    rc, o = sh(["bash", demo, tree], cwd=tree)
    out["demo_clean_rc"] = rc
    rc, o = sh(["git", "apply", "--check", patch], cwd=tree)
    out["applies"] = rc == 0
    if rc != 0:
        out["apply_error"] = o[-400:]
        return out
    sh(["git", "apply", patch], cwd=tree)
    rc, o = sh("cargo test --workspace --no-fail-fast --offline 2>&1 | tail -400", cwd=tree)
    fails = re.findall(r"test result: FAILED|error\[|error: could not compile|panicked at", o)
    oks = re.findall(r"test result: ok\. (\d+) passed", o)
    out["suite_pass"] = not fails and len(oks) > 0
    out["suite_passed_tests"] = sum(int(x) for x in oks)
    if fails:
        out["suite_tail"] = o[-800:]
    rc, o = sh(["bash", demo, tree], cwd=tree)
    out["demo_patched_rc"] = rc
    clean(tree)
    out["confirmed"] = out["demo_clean_rc"] == 0 and out["suite_pass"] and out["demo_patched_rc"] != 0
    return out


def keep(mid, prop, tree, mdir, needs, verdict):
    dst = os.path.join(VERIF, "seeded", mid)
    os.makedirs(dst, exist_ok=True)
    for f in ("patch.diff", "demo.sh", "NOTES.md"):
        src = os.path.join(mdir, f)
        if os.path.exists(src):
            shutil.copy(src, os.path.join(dst, f))
    meta_path = os.path.join(dst, "meta.json")
    meta = json.load(open(meta_path)) if os.path.exists(meta_path) else {}
    meta.update({
        "id": mid,
        "property": prop,
        "needs_to_manifest": needs,
        "origin": "independent sub-agent given only the property text and a scratch worktree",
        "confirmed": {
            "demo_on_clean_tree_exit": verdict["demo_clean_rc"],
            "existing_suite_with_patch": "pass (%d tests ok)" % verdict["suite_passed_tests"] if verdict["suite_pass"] else "FAIL",
            "demo_on_patched_tree_exit": verdict["demo_patched_rc"],
            "commands": [
                "bash demo.sh <clean worktree>",
                "git apply patch.diff && cargo test --workspace --no-fail-fast --offline",
                "bash demo.sh <patched worktree>",
            ],
        },
    })
    json.dump(meta, open(meta_path, "w"), indent=1)
    open(meta_path, "a").write("\n")


def detect(mid, checks, tier, seed):
    dst = os.path.join(VERIF, "seeded", mid)
    patch = os.path.join(dst, "patch.diff")
    rc, o = sh(["git", "status", "--porcelain", "--untracked-files=no"], cwd=REPO)
    if o.strip():
        print("refusing: /repo has local changes:\n" + o)
        sys.exit(2)
    rc, o = sh(["git", "apply", patch], cwd=REPO)
    if rc != 0:
        print("patch does not apply to /repo:", o)
        sys.exit(2)
    results = {}
    # evidence files describe the unchanged tree: keep them out of reach of runs on a patched tree
    saved = {}
    for c in checks:
        ev = os.path.join(VERIF, "evidence", c + ".json")
        saved[ev] = open(ev).read() if os.path.exists(ev) else None
    try:
        for c in checks:
            t0 = time.time()
            env = dict(ENV, VERIF_SEED=str(seed))
            p = subprocess.run(["./check", c, tier], cwd=VERIF, stdout=subprocess.PIPE, stderr=subprocess.STDOUT, text=True, env=env)
            sigs = re.findall(r"violation signature (\S+)", p.stdout)
            results[c] = {
                "tier": tier,
                "seed": seed,
                "exit": p.returncode,
                "violation_lines": len(re.findall(r"^VIOLATION ", p.stdout, re.M)),
                "signatures": sorted(set(sigs))[:8],
                "wall_s": round(time.time() - t0, 1),
            }
            print(c, json.dumps(results[c]))
    finally:
        sh(["git", "checkout", "--", "."], cwd=REPO)
        for ev, content in saved.items():
            if content is None:
                if os.path.exists(ev):
                    os.remove(ev)
            else:
                open(ev, "w").write(content)
    meta_path = os.path.join(dst, "meta.json")
    meta = json.load(open(meta_path)) if os.path.exists(meta_path) else {}
    det = meta.setdefault("detection", {})
    det.update(results)
    meta["detected_by"] = sorted(c for c, r in det.items() if r["exit"] == 1)
    json.dump(meta, open(meta_path, "w"), indent=1)
    open(meta_path, "a").write("\n")


def main():
    a = sys.argv[1:]
    if not a:
        print(__doc__)
        sys.exit(2)
    if a[0] == "verify":
        print(json.dumps(verify(a[1], a[2]), indent=1))
    elif a[0] == "keep":
        mid, prop, tree, mdir, needs = a[1:6]
        v = verify(tree, mdir)
        print(json.dumps(v, indent=1))
        if v.get("confirmed"):
            keep(mid, prop, tree, mdir, needs, v)
            print("kept", mid)
        else:
            print("NOT confirmed; not kept")
            sys.exit(1)
    elif a[0] == "detect":
        tier, seed = "quick", 1
        rest = []
        i = 1
        while i < len(a):
            if a[i] == "--tier":
                tier = a[i + 1]
                i += 2
            elif a[i] == "--seed":
                seed = int(a[i + 1])
                i += 2
            else:
                rest.append(a[i])
                i += 1
        detect(rest[0], rest[1:], tier, seed)
    else:
        print(__doc__)
        sys.exit(2)


if __name__ == "__main__":
    main()
