#!/usr/bin/env python3
"""Regenerates /verif/MANIFEST.json from the table below and validates it."""
import json, os, subprocess, sys

ROOT = os.path.dirname(os.path.dirname(os.path.abspath(__file__)))

# id -> (technique, level text, level note, design section)
CHECKS = {
    "C07": (
        "runtime monitor: exhaustive short strings + random long literals through the real scanner/printer, judged by an independent recogniser; okane format echo",
        "Every string over {0,1,5,9,',','.','-'} up to length 8 (quick) / 10 (thorough) and over the full 13-symbol alphabet up to 6 / 7, plus random near-valid literals up to 45 digits and literals embedded in every syntactic position, are pushed through PrettyDecimal::from_str/to_string, the ledger parser and `okane format`; an independent recogniser with exact (mantissa, scale) decides accept/reject/value. Exhaustive below the stated lengths, sampled above.",
        "Trusted: the recogniser in harness/src/model/num.rs (60 lines, unit-tested); representable = 96-bit mantissa and <= 28 decimals; `.5`-style literals are unspecified.",
        "4/C07",
    ),
}

NOT_APPLICABLE = []

def main():
    props = [json.loads(l) for l in open(os.path.join(ROOT, "properties.jsonl")) if l.strip()]
    ids = [p["id"] for p in props]
    hooks_commits = subprocess.run(
        ["git", "-C", "/repo", "log", "--format=%H", "--grep=^verif:"], capture_output=True, text=True
    ).stdout.split()
    checks = []
    for pid in ids:
        if pid not in CHECKS:
            continue
        tech, text, note, ref = CHECKS[pid]
        checks.append({
            "property_id": pid,
            "quick_cmd": f"./check {pid} quick",
            "thorough_cmd": f"./check {pid} thorough",
            "evidence_file": f"/verif/evidence/{pid}.json",
            "replay_cmd_template": f"./check {pid} --replay {{path}}",
            "engine": "ov",
            "level_claimed": {"category": "exploration", "text": text, "design_ref": "DESIGN.md section " + ref},
            "level_note": note,
            "technique": tech,
        })
    claimed = {c["property_id"] for c in checks}
    na = [x for x in NOT_APPLICABLE if x["property_id"] not in claimed]
    for pid in ids:
        if pid not in claimed and pid not in {x["property_id"] for x in na}:
            na.append({"property_id": pid, "reason": "check not registered yet in this revision of /verif (work in progress; the design in DESIGN.md section 4 applies)"})
    manifest = {
        "version": 1,
        "setup_cmd": "./check setup",
        "hooks": {
            "guard": "cargo feature `verif` (okane-core/verif, forwarded by okane/verif); off by default",
            "enable": "harness depends on /repo/core and /repo/cli by path with features=[\"verif\"]; CLI built with --features okane/verif",
            "baseline_off_cmd": "cd /repo && (cargo nextest run --workspace --no-fail-fast --tool-config-file pb:/w/lib/nextest.toml --profile pb --test-threads 8 --offline || cargo test --workspace --no-fail-fast --offline)",
            "source_commits": hooks_commits,
            "add_only": True,
        },
        "engines": [{
            "name": "ov",
            "path": "/verif/harness",
            "serves_properties": sorted(claimed),
            "kind_free_text": "Rust harness linking the real okane crates: generated hostile workloads run in sacrificial worker processes (per-case CPU limit, begin/summary journal), judged by reference-model and metamorphic oracles; black-box runs of the real okane binary; hook event log for evidence",
        }],
        "checks": checks,
        "notes": "Runtime monitoring only. Exit 0 = held on everything explored, 1 = VIOLATION line printed, 2 = inconclusive (build failure, harness error, watchdog, too few non-trivial cases). Known findings: /verif/known_findings.json.",
        "not_applicable": na,
    }
    path = os.path.join(ROOT, "MANIFEST.json")
    json.dump(manifest, open(path, "w"), indent=1)
    open(path, "a").write("\n")
    try:
        import jsonschema
        jsonschema.validate(manifest, json.load(open("/root/.vp/MANIFEST.schema.json")))
        print("MANIFEST.json valid;", len(checks), "checks,", len(na), "not_applicable")
    except ImportError:
        print("jsonschema not importable here; wrote MANIFEST.json unvalidated")

if __name__ == "__main__":
    main()
