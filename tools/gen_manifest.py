#!/usr/bin/env python3
"""Regenerates /verif/MANIFEST.json from the table below and validates it."""
import json, os, subprocess, sys

ROOT = os.path.dirname(os.path.dirname(os.path.abspath(__file__)))

# id -> (technique, level text, level note, design section)
CHECKS = {
    "C01": (
        "runtime monitor: generated transaction histories through report::process, judged by a reference book-keeping model (accept / reject / may / unspecified), hook events as branch evidence",
        "1.2*10^5 (quick) / 1.5*10^7 (thorough) ledgers (a quarter written through declared aliases, one in six cut into included files, some with magnitudes up to 2.5*10^19 or negative prices) whose last transaction is shaped onto each branch of the balance predicate (exact zero, sub-unit offsets around the half-even rounding boundary, zero next to non-zero, two commodities same/opposite sign, costs, lots, expressions, omitted amounts) run through the real report::process; acceptance, the transaction named in the diagnostic and stored amounts are compared with an exact-rational reference model. Held on the executions produced; hook counters show every branch of check_balance was driven.",
        "Trusted: harness/src/model/book.rs and q.rs (exact rationals); ill-formed postings and the implied-exchange case are unspecified by the statement and only checked for no-crash.",
        "4/C01",
    ),
    "C02": (
        "runtime monitor: assertion-heavy histories through report::process; reference model replays postings in file order; diagnostics parsed for position, computed balance and difference",
        "Assertions derived from the model's running balances (true, off by one unit, true one posting earlier, bare zero, foreign commodity), several per account and transaction, after assigned and inferred amounts, on multi-commodity accounts; a ledger must be accepted iff all are true at their position and the failure diagnostic must point at the posting line and report the model's balance and difference.",
        "Trusted: the reference model; the rendered diagnostic format (`--> path:line:col`, `balance assertion off by D, computed balance is B`). One open known finding (inferred amount applied after siblings).",
        "4/C02",
    ),
    "C03": (
        "runtime monitor: omitted / assigned amounts at every position, judged by the reference model on Ledger::transactions() and Ledger::balance()",
        "Inferred posting amounts (multi-commodity), assigned amounts (X minus previous balance, bare zero), final balances of every account, and the rejection of two unconstrained postings and of `= 0` over several commodities are compared exactly with the reference model over 1.2*10^5 / 10^7 generated histories (aliases, include trees, negative prices, huge magnitudes).",
        "Trusted: the reference model; exact comparison is possible because generated values have finite decimal expansions well inside the Decimal range.",
        "4/C03",
    ),
    "C04": (
        "runtime monitor: accepted generated histories queried over every boundary date range on one Ledger value; balance compared with the exact sum of the register, adjacency, raw vs re-fold path, CLI balance/register sample",
        "1.2*10^4 (quick) / 6*10^5 (thorough) accepted ledgers of 3-32 transactions, each queried over ~140 (start, end) ranges built from every transaction date, its neighbours, far before/after and open ends (empty and inverted ranges included): Ledger::balance must equal the exact per-account, per-commodity sum of the register's postings dated in [start, end) (exactly or after half-even rounding to the declared precision), never list an exact-zero commodity, never lose or duplicate an account or commodity; adjacent ranges add up; whole-history (incremental) and re-fold paths and `okane register`'s final running total agree; a sample goes through `okane balance --start/--end`.",
        "Trusted: exact-rational summation in the harness; reading of 'up to rounding' as exact-or-rounded. Ledgers rejected by the code are skipped (outside 'accepted ledgers').",
        "4/C04",
    ),
    "C05": (
        "runtime monitor: grammar-driven generator from doc/syntax.md, three oracles (intended tree, parse∘format = parse, format idempotent), greedy feature minimisation for violation classes",
        "Texts covering every production of doc/syntax.md with hostile whitespace, CRLF, EOF-terminated last lines and Unicode are parsed and formatted by the real code; the parsed entries must equal the generator's intended tree, formatting must preserve the canonical meaning dump and be byte-idempotent. 6*10^4 (quick) / 2*10^7 (thorough) texts.",
        "Trusted: my reading of doc/syntax.md (narrowings listed in the evidence rule) and the canonical dump in harness/src/gen/syntax.rs.",
        "4/C05",
    ),
    "C06": (
        "runtime monitor: crash/hang/abort observer around hostile inputs (all prefixes, token mutations, random Unicode, zeros in every number slot, include graphs, deep nesting, price graphs with many ties, inputs of several MB) in sacrificial workers with a per-case CPU limit, plus black-box CLI runs",
        "Every operation named by the property (parse, format, load, process, balance/-X/ranges, register, accounts, eval; in-process and through the real binary) is run on ~10^6 (quick) / 5*10^7 (thorough) hostile inputs with integer-overflow and debug-assert traps on; any panic, abort, stack overflow, signal or CPU-limit hit is a violation with the input as witness.",
        "Hang = 20 CPU-seconds for one in-process case or 10 CPU-seconds for one run of the binary (inputs are <= 64 KiB except the large-input family: ledgers of 40 000-120 000 transactions, 70 000-character tokens, a 100 000-term expression, a 200 000-line price database); decimal-range overflows (rust_decimal's own overflow panics) are outside the statement's proviso and are counted, not reported. Open known findings: stack overflow on ~10^4 nested parentheses and on a 100 000-term expression.",
        "4/C06",
    ),
    "C07": (
        "runtime monitor: exhaustive short strings + random long literals through the real scanner/printer, judged by an independent recogniser; okane format echo",
        "Every string over {0,1,5,9,',','.','-'} up to length 7 (quick) / 9 (thorough) and over the full 13-symbol alphabet up to 5 / 6, plus random near-valid literals up to 45 digits (one in five within a few units of 2^31 ... 2^128, 10^18, 10^28, 10^29) and literals embedded in every syntactic position (parsed in 8, printed by the formatter in 13), are pushed through PrettyDecimal::from_str/to_string, the ledger parser and `okane format`; an independent recogniser with exact (mantissa, scale) decides accept/reject/value. Exhaustive below the stated lengths, sampled above.",
        "Trusted: the recogniser in harness/src/model/num.rs (60 lines, unit-tested); representable = 96-bit mantissa and <= 28 decimals; `.5`-style literals are unspecified.",
        "4/C07",
    ),
    "C08": (
        "runtime monitor: exhaustive small expression trees + random larger ones through Ledger::eval, posting amount, cost, assertion, lot price and `okane primitive eval`, judged by an exact-rational three-valued reference evaluator",
        "All 138,828 expressions with <= 3 leaves (6 literals x optional unary minus x 4 operators x 5 parenthesisation shapes) and 4*10^4 (quick) / 2*10^7 (thorough) random trees up to depth 4 / 8 leaves, with operators rendered with and without surrounding spaces, are evaluated by the real code in every position an expression can appear; values must equal exact rational arithmetic (left fold, precedence, commodity typing), ill-typed expressions must be rejected, the inferred sibling must be the negation. Exhaustive below 4 leaves, sampled above.",
        "Trusted: harness/src/model/expr.rs (unit-tested on the precedence/associativity examples). number/commodity, commodity/commodity and one-nonzero-commodity-next-to-zero sums are unspecified. Comparison is exact unless an intermediate value is not a 96-bit/28-place decimal (then 1e-20 relative).",
        "4/C08",
    ),
    "C12": (
        "runtime monitor: metamorphic comparison of an accepted ledger with its alias-substituted spelling (API and CLI text), plus conflict shapes that must be rejected and controls that must be accepted",
        "3*10^4 (quick) / 1.5*10^6 (thorough) cases: generated accepted ledgers whose accounts and commodities get 1-3 declared aliases; a variant writing 20-100% of the later occurrences (accounts, commodities in amounts, expressions, costs, lot prices, assertions) through aliases must give identical stored postings and balances, show canonical names only, and identical `okane balance`/`okane register` text; 8 conflict shapes x {account, commodity} must fail with InvalidAccount/InvalidCommodity and 4 conflict-free shapes must be accepted.",
        "Trusted: the generator's alias pools are disjoint from canonical names. Re-declaring an alias for another canonical name is outside the statement.",
        "4/C12",
    ),
    "C09": (
        "runtime monitor: generated price scenarios (ledger-derived events in five written forms + price-DB lines) queried for every pair and boundary date on one Ledger; rates compared with a brute-force reference over all simple chains; hook distance triple as secondary clause",
        "6*10^3 (quick) / 1.5*10^6 (thorough) scenarios of 3-5 commodities and 3-12 dated price events (cycles, disconnected parts, parallel ledger/price-DB prices, several prices per date), each queried ~160-240 times (all ordered pairs x d-1/d/d+1 of every event date, shuffled, sharing the rate-table cache): the observed rate must be the rate of a chain that is optimal by (ledger-derived steps, steps, staleness) using per step the most recent record on or before the date, reciprocal for the reverse direction, identity for A->A, failure when no chain exists; price-DB records displace ledger ones for the pair.",
        "Trusted: harness/src/model/price.rs (unit-tested); 1e-18 relative tolerance; either reading of chain staleness accepted for the rate, the code's own (stalest step) for the hook clause.",
        "4/C09",
    ),
    "C10": (
        "runtime monitor: accepted multi-commodity ledgers with ledger-derived and price-DB prices, 12 converted-balance queries each (targets x historical/up-to-date x ranges) on one Ledger; expected totals from the code's own register and the C09 reference price model; CLI sample",
        "10^4 (quick) / 2*10^6 (thorough) ledgers: for every target commodity, both conversion strategies, report dates before/inside/after the price history and whole/closed/half-open date ranges, Ledger::balance with a conversion must return per account the sum of every holding (or, historically, every posting at its own date) times the reference rate, leave amounts already in T unchanged, show nothing in another commodity, be rounded only once to T's precision, and must fail whenever a needed rate does not exist on or before the relevant date. About half of the queries exercise the must-fail branch.",
        "Trusted: harness/src/model/price.rs; price events read off the written postings (cost, else lot). Queries with several admissible rates are counted, not judged. Tolerance 1e-18 of the magnitude of the converted terms, ties at the rounding boundary accept both neighbours.",
        "4/C10",
    ),
    "C11": (
        "runtime monitor: order-sensitive accepted ledgers cut into random include trees (literal, parent-relative, glob, decoys, no-match) on the in-memory and the real file system; delivered (path, entry, line) sequence and reports compared with the unsplit ledger",
        "1.2*10^4 (quick) / 2.5*10^5 (thorough) trees of depth <= 3 (about 8 files each; a third with one file included from two places, a third with includes of zero-byte files): Loader::load must deliver exactly the written entries in the written order with each entry's own file and first line, never an include line; report::process on the tree must give the stored postings and balances of the unsplit text; `okane balance/register/primitive flatten` stdout must be identical (sample); an include that matches nothing (or only dot-files / deeper files) must fail on both file systems.",
        "Trusted: the tree builder (expected flattening known by construction); byte-wise path order. One genuine defect found and fixed (FakeFileSystem did not resolve `..`).",
        "4/C11",
    ),
    "C14": (
        "runtime monitor: file trees with exactly one invalid entry at a known (file, first line, last line, stop line) after arbitrary valid content; rendered error chain and CLI stderr parsed for file names and line numbers",
        "4*10^4 (quick) / 2*10^6 (thorough) trees of 1-3 files (LF/CRLF per file, multi-byte comments and names, blank-line runs, includes one and two levels deep) with one of 15 invalid entries (7 semantic, 8 syntactic): the run must fail, every file named as the location must be the file holding the entry, at least one line number must be shown and all shown line numbers must lie inside the entry (up to the stop line for syntax errors); 1% repeated on real files through `okane balance/register/accounts`.",
        "Trusted: the generator's own line bookkeeping; the diagnostic layout (`--> file:line:col`, `N |` gutters, `failed to parse file`).",
        "4/C14",
    ),
    "C19": (
        "runtime monitor: generated postings sweeping account display width, number shape and commodity kind through the real formatter; column positions measured with an independent display-width model",
        "6*10^4 (quick) / 3*10^6 (thorough) ledgers (~6 postings each): account display widths 1-70 with a bias to the alignment boundary, ASCII / East-Asian wide characters / clear marks, numbers of every digit count, sign, grouping and scale, literal and expression amounts, lots, costs, assertions, assertion-only and amount-less postings, metadata. On the formatter's output every posting starts with four spaces, at least two spaces follow the account, the aligned number ends at display column max(52, account end + 2 + prefix), an assertion-only `=` falls where it would after an amount in that commodity, metadata is indented four spaces, exactly one blank line separates entries; `okane format` prints the same bytes (sample).",
        "Trusted: the width model in harness/src/checks/c19.rs (explicit code-point ranges; no ambiguous-width characters generated).",
        "4/C19",
    ),
    "C20": (
        "runtime monitor: exhaustive pools of (UPDATE_GOLDEN value, golden file state, got string) run through the real helper in fresh processes; exit status, directory snapshot (bytes, inode, mtime) and strace log of file/write system calls",
        "All 600 combinations of 5 environment settings x 16 golden-file states (absent, LF, CRLF, mixed, lone CR, CR at EOF, non-ASCII, long) x up to 11 derived `got` strings (equal after normalisation, un-normalised, newline / whitespace / CR near-misses, one code point changed): without a non-empty UPDATE_GOLDEN the helper must succeed exactly when got equals the CRLF-normalised content, treat a missing file as an error, leave the directory byte-, inode- and mtime-identical and issue no write-class system call; with it, it must never fail, leave the file exactly equal to got and touch nothing else. Exhaustive over the pools.",
        "Trusted: the probe binary (harness/src/golden_probe.rs, 15 lines) and strace's decoding of open flags.",
        "4/C20",
    ),
    "C13": (
        "runtime monitor: each (command, input) run in N fresh processes of the real binary (fresh hash seed each), exit status / stdout / stderr compared byte for byte; inputs biased to where hash order can leak",
        "1400 (quick) / 6000 (thorough) inputs x 2-4 commands x 6 / 20 fresh processes: generated ledgers (balance, register, accounts, format), accounts with 3-6 commodities and multi-commodity inferred postings, failing assertions / assignments / residuals in several commodities (error text), equal-distance price chains of different rate and several unconvertible commodities (balance -X, --historical, primitive eval -X), random price scenarios, include trees with globs (flatten, balance), CSV imports with multi-matcher rules. Probabilistic in the hash seed: a 3-commodity hash-ordered print escapes 6 runs with probability < 1e-3 per input.",
        "The wall clock cannot be moved here; --now is always explicit. One genuine defect found and fixed (hash-order dependent conversion ties and error text).",
        "4/C13",
    ),
    "C16": (
        "runtime monitor: consistent generated statements rendered under random CSV layouts and configurations through the real importer; tree compared row by row with the generator's ground truth; imported text fed to okane's own book-keeping",
        "2*10^4 (quick) / 10^6 (thorough) statements (1-8 rows) x random layout (index/label/template columns, 3 delimiters, skipped head lines, 4 date formats, amount or credit/debit columns, asset/liability, both row orders, commodity / balance / rate / secondary amount / secondary commodity / charge / note / category columns, 3 number styles, both rate modes, extracted or computed conversion): per row the configured account moves by the row's signed amount with the running balance asserted, the counter posting carries the opposite amount or the secondary amount with the rate on the commodity it prices, rows come out oldest first; for asset accounts funding + import output is accepted by report::process and ends at the statement's last balance.",
        "Trusted: the statement generator keeps the ground truth it renders. Charges only on foreign-currency rows (the statement does not define a charge on a plain row).",
        "4/C16",
    ),
    "C18": (
        "runtime monitor: consistent generated camt.053 statements (batches, mixed-sign details, included charges, value/booking dates, both orders) through the real importer; tree compared with the statement's ground truth; imported text fed to okane's own book-keeping",
        "1.5*10^4 (quick) / 8*10^5 (thorough) statements of 1-8 entries: the opening balance is asserted on a first zero transaction, every entry or detail becomes one transaction with the account posting signed by its own credit/debit indicator, dated by value date with the booking date as effective date when different, included charges become commission postings, the closing balance is asserted on the last transaction only; funding + printed output is accepted by report::process and ends at the closing balance (all 15000 quick cases exercise the end-to-end clause).",
        "Trusted: the XML renderer in harness/src/checks/import_common.rs. Charges only on details with TxAmt given (an entry-level included charge without details cannot be balanced by any importer).",
        "4/C18",
    ),
    "C17": (
        "runtime monitor: random layered configuration documents and rewrite rules through ConfigSet::select and the real CSV importer; selected configuration and every imported transaction compared with a reference merge / rule fold",
        "2*10^4 (quick) / 10^6 (thorough) configurations of 1-5 documents (substring, nested, equal-length and unrelated paths, random document order, partial scalar overrides, 0-3 rules each) with rules over a regex pool (capture groups, case variations, OR-lists of AND-maps, payee / account / pending combinations, rules that only match a rewritten payee): the selected ConfigEntry equals the documented merge field by field and rule by rule, and each of 1-6 records gets the payee, code, counter account (or the Unknown account by sign) and pending mark of the documented fold.",
        "Trusted: the reference merge/fold in harness/src/checks/c17.rs; the regex crate itself (shared). At most one capturing matcher per AND-map.",
        "4/C17",
    ),
    "C15": (
        "runtime monitor: generated CSV, camt.053 and Viseca statements with hostile free text through the real importer; the tree the importer built is compared with okane's own parse of the text it printed",
        "2*10^4 (quick) / 10^6 (thorough) statements (all CSV layouts, conversions, charges, configured precisions; camt batches, charges, references as codes, captured payees), 70% with one of 23 hostile texts (`;`, line breaks, injected entries, leading `(` `*` `!`, tabs, double / leading / trailing spaces, `=`/`@`, braces, wide characters, `Key: value`, `:tag:`, `Key:: expr`, date-like, quotes, `%#|`) in payee, note, category, party names, remittance / additional info or references: the printed text must parse, contain exactly one transaction per built transaction, equal the built tree field by field (numbers by value), never lose decimals and apply configured precisions.",
        "Trusted: the canonical dump shared with C05. With hostile text the violation class is the text feature alone, so an open finding for a feature masks other failures that need the same feature. 7 open findings (text printed raw), 1 fixed (line breaks).",
        "4/C15",
    ),
}

NOT_APPLICABLE = []

def main():
    props = [json.loads(l) for l in open(os.path.join(ROOT, "properties.jsonl")) if l.strip()]
    ids = [p["id"] for p in props]
    hooks_commits = subprocess.run(
        ["git", "-C", "/repo", "log", "--format=%H", "--grep=^verif:"], capture_output=True, text=True
    ).stdout.split()
    checks = []
    for pid in ids:
        if pid not in CHECKS:
            continue
        tech, text, note, ref = CHECKS[pid]
        checks.append({
            "property_id": pid,
            "quick_cmd": f"./check {pid} quick",
            "thorough_cmd": f"./check {pid} thorough",
            "evidence_file": f"/verif/evidence/{pid}.json",
            "replay_cmd_template": f"./check {pid} --replay {{path}}",
            "engine": "ov",
            "level_claimed": {"category": "exploration", "text": text, "design_ref": "DESIGN.md section " + ref},
            "level_note": note,
            "technique": tech,
        })
    claimed = {c["property_id"] for c in checks}
    na = [x for x in NOT_APPLICABLE if x["property_id"] not in claimed]
    for pid in ids:
        if pid not in claimed and pid not in {x["property_id"] for x in na}:
            na.append({"property_id": pid, "reason": "check not registered yet in this revision of /verif (work in progress; the design in DESIGN.md section 4 applies)"})
    manifest = {
        "version": 1,
        "setup_cmd": "./check setup",
        "hooks": {
            "guard": "cargo feature `verif` (okane-core/verif, forwarded by okane/verif); off by default",
            "enable": "harness depends on /repo/core and /repo/cli by path with features=[\"verif\"]; CLI built with --features okane/verif",
            "baseline_off_cmd": "cd /repo && (cargo nextest run --workspace --no-fail-fast --tool-config-file pb:/w/lib/nextest.toml --profile pb --test-threads 8 --offline || cargo test --workspace --no-fail-fast --offline)",
            "source_commits": hooks_commits,
            "add_only": True,
        },
        "engines": [{
            "name": "ov",
            "path": "/verif/harness",
            "serves_properties": sorted(claimed),
            "kind_free_text": "Rust harness linking the real okane crates: generated hostile workloads run in sacrificial worker processes (per-case CPU limit, begin/summary journal), judged by reference-model and metamorphic oracles; black-box runs of the real okane binary; hook event log for evidence",
        }],
        "checks": checks,
        "notes": "Runtime monitoring only. Exit 0 = held on everything explored, 1 = VIOLATION line printed, 2 = inconclusive (build failure, harness error, watchdog, too few non-trivial cases). Known findings: /verif/known_findings.json.",
        "not_applicable": na,
    }
    path = os.path.join(ROOT, "MANIFEST.json")
    json.dump(manifest, open(path, "w"), indent=1)
    open(path, "a").write("\n")
    try:
        import jsonschema
        jsonschema.validate(manifest, json.load(open("/root/.vp/MANIFEST.schema.json")))
        print("MANIFEST.json valid;", len(checks), "checks,", len(na), "not_applicable")
    except ImportError:
        print("jsonschema not importable here; wrote MANIFEST.json unvalidated")

if __name__ == "__main__":
    main()
