#!/usr/bin/env python3
"""Regenerates the seeded-changes table and the strengthening notes in DESIGN.md (section 11.4)
from /verif/seeded/*/meta.json."""
import glob, json, os, re
ROOT = os.path.dirname(os.path.dirname(os.path.abspath(__file__)))
rows, hist = [], []
for d in sorted(glob.glob(os.path.join(ROOT, "seeded", "*"))):
    m = json.load(open(os.path.join(d, "meta.json")))
    det = m.get("detection", {})
    by = m.get("detected_by", [])
    sig = ""
    for c in by:
        if det[c]["signatures"]:
            sig = det[c]["signatures"][0]
            break
    star = " (*)" if "history" in m else ""
    rows.append("| %s%s | %s | %s | `%s` |" % (m["id"], star, m["needs_to_manifest"].replace("|", "/"), ", ".join(by) or ("not judged (see note)" if m.get("not_judged") else "MISSED"), sig[:100].replace("|", "\\|")))
    if "history" in m:
        hist.append("* **%s** — %s." % (m["id"], m["history"]))
p = os.path.join(ROOT, "DESIGN.md")
s = open(p).read()
block = "<!-- seeded-begin -->\n| id | needs to manifest | caught by (quick) | first signature |\n|---|---|---|---|\n" + "\n".join(rows) + "\n\nStrengthening prompted by these changes:\n\n" + "\n".join(hist) + "\n<!-- seeded-end -->"
if "<!-- seeded-begin -->" in s:
    s = re.sub(r"<!-- seeded-begin -->.*?<!-- seeded-end -->", lambda _: block, s, flags=re.S)
else:
    a = s.index("| id | needs to manifest | caught by (quick) | first signature |")
    b = s.index("### 11.5")
    s = s[:a] + block + "\n\n" + s[b:]
open(p, "w").write(s)
print(len(rows), "seeded changes;", sum(1 for r in rows if "MISSED" in r), "missed;", sum(1 for r in rows if "not judged" in r), "not judged")
