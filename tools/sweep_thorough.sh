#!/bin/bash
cd "$(dirname "$0")/.."
S=${1:-1}
for c in C01 C02 C03 C04 C05 C06 C07 C08 C09 C10 C11 C12 C13 C14 C15 C16 C17 C18 C19 C20; do
  st=$(date +%s)
  VERIF_SEED=$S ./check $c thorough 2>&1 | grep -E "tier=|VIOLATION|violation signature|INCONCLUSIVE|KNOWN" | cut -c1-300
  echo "$c wall $(( $(date +%s) - st )) s"
done
echo ALLDONE
