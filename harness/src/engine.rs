//! Execution engine shared by all checks: sacrificial worker processes with a per-case
//! CPU-time limit and a begin/summary journal, a driver that charges abnormal worker
//! exits to the case that was open, signatures, known findings, evidence and replay files.

use std::collections::{BTreeMap, BTreeSet, HashSet};
use std::io::{BufRead, BufReader, Write};
use std::os::unix::fs::FileExt;
use std::os::unix::process::ExitStatusExt;
use std::path::{Path, PathBuf};
use std::process::{Command, Stdio};
use std::sync::atomic::{AtomicBool, AtomicU64, Ordering};
use std::sync::{Arc, Mutex};
use std::time::{Duration, Instant};

use serde_json::{json, Value};

use crate::rng::fnv64;

pub const VERIF_ROOT: &str = "/verif";

#[derive(Clone, Copy, PartialEq, Eq, Debug)]
pub enum Tier {
    Quick,
    Thorough,
}

impl Tier {
    pub fn name(self) -> &'static str {
        match self {
            Tier::Quick => "quick",
            Tier::Thorough => "thorough",
        }
    }
    pub fn parse(s: &str) -> Option<Tier> {
        match s {
            "quick" => Some(Tier::Quick),
            "thorough" => Some(Tier::Thorough),
            _ => None,
        }
    }
    pub fn pick<T>(self, quick: T, thorough: T) -> T {
        match self {
            Tier::Quick => quick,
            Tier::Thorough => thorough,
        }
    }
}

/// Run context given to every case.
pub struct Ctx {
    pub seed: u64,
    pub tier: Tier,
    /// Scratch directory private to this worker process (removed at exit).
    pub scratch: PathBuf,
    /// okane binary built with overflow checks + debug assertions.
    pub cli_a: PathBuf,
    /// okane binary built with the plain release profile (may be absent in quick runs).
    pub cli_b: PathBuf,
}

pub trait Check: Sync {
    fn id(&self) -> &'static str;
    /// Number of cases in this tier. Case i is a pure function of (seed, id, i).
    fn cases(&self, tier: Tier) -> u64;
    /// Cases handed to one worker process at a time.
    fn chunk(&self, tier: Tier) -> u64 {
        let n = self.cases(tier);
        (n / 64).clamp(1, 20_000)
    }
    fn run(&self, ctx: &Ctx, idx: u64, rec: &mut Recorder);
    /// How cases are generated and what makes one non-trivial / distinct.
    fn rule(&self) -> String;
    fn assumptions(&self) -> Vec<String>;
    /// A run observing fewer distinct non-trivial cases than this is inconclusive.
    fn min_nontrivial(&self, _tier: Tier) -> u64 {
        2
    }
    /// Some(description) if the run enumerates a finite space completely.
    fn exhaustive(&self, _tier: Tier) -> Option<String> {
        None
    }
    /// CPU seconds one case may use before it is declared a hang.
    fn case_cpu_limit(&self) -> u64 {
        10
    }
    fn workers(&self, tier: Tier) -> usize {
        tier.pick(12, 16)
    }
}

#[derive(Clone, Debug)]
pub struct Violation {
    pub signature: String,
    pub what: String,
    pub witness: Value,
    pub index: u64,
}

/// Per-case recording surface handed to checks.
pub struct Recorder {
    pub prop: &'static str,
    pub index: u64,
    counters: BTreeMap<String, u64>,
    nontrivial: Vec<u64>,
    samples: Vec<Value>,
    violations: Vec<Violation>,
    skipped: u64,
    cur_label: String,
    cur_input: String,
    cur_file: Option<std::fs::File>,
    want_samples: usize,
    /// rust_decimal's own range-overflow panics are outside every property's hypothesis only
    /// where the workload can legitimately leave the decimal range; checks whose generators
    /// keep every required value inside it switch this off, so such a panic is a violation.
    pub excuse_decimal_overflow: bool,
    /// sub-inputs executed inside the current case beyond the first (a case may run many inputs)
    marks_in_case: u64,
    extra_evaluations: u64,
}

impl Recorder {
    fn new(prop: &'static str, cur_file: Option<std::fs::File>) -> Self {
        Recorder {
            prop,
            index: 0,
            counters: BTreeMap::new(),
            nontrivial: Vec::new(),
            samples: Vec::new(),
            violations: Vec::new(),
            skipped: 0,
            cur_label: String::new(),
            cur_input: String::new(),
            cur_file,
            want_samples: 2,
            excuse_decimal_overflow: true,
            marks_in_case: 0,
            extra_evaluations: 0,
        }
    }

    /// Declare the operation about to be run on the real code and its concrete input, so
    /// that a panic, abort or hang can be charged to it with a witness.
    pub fn op(&mut self, label: &str, input: &str) {
        self.cur_label.clear();
        self.cur_label.push_str(label);
        self.cur_input.clear();
        self.cur_input.push_str(input);
        if let Some(f) = &self.cur_file {
            let mut buf = Vec::with_capacity(label.len() + input.len() + 16);
            let body_len = label.len() + 1 + input.len();
            buf.extend_from_slice(&(body_len as u64).to_le_bytes());
            buf.extend_from_slice(label.as_bytes());
            buf.push(0);
            buf.extend_from_slice(input.as_bytes());
            let _ = f.write_all_at(&buf, 0);
        }
    }

    pub fn count(&mut self, tag: &str) {
        *self.counters.entry(tag.to_string()).or_insert(0) += 1;
    }

    pub fn count_n(&mut self, tag: &str, n: u64) {
        if n > 0 {
            *self.counters.entry(tag.to_string()).or_insert(0) += n;
        }
    }

    /// Count hook events by tag (evidence of which internal branches were driven).
    pub fn hook_events(&mut self, events: &[(&'static str, String)]) {
        for (tag, _) in events {
            *self.counters.entry(format!("hook:{}", tag)).or_insert(0) += 1;
        }
    }

    /// Mark a case (identified by a content hash) as non-trivial by the check's rule.
    pub fn nontrivial(&mut self, content: &str) {
        self.nontrivial_hash(fnv64(content.as_bytes()));
    }

    pub fn nontrivial_hash(&mut self, h: u64) {
        self.nontrivial.push(h);
        self.marks_in_case += 1;
        if self.marks_in_case > 1 {
            // one case index that runs several inputs counts each of them as an evaluation
            self.extra_evaluations += 1;
        }
    }

    pub fn skip(&mut self) {
        self.skipped += 1;
    }

    pub fn wants_sample(&self) -> bool {
        self.samples.len() < self.want_samples
    }

    pub fn sample(&mut self, v: Value) {
        if self.samples.len() < self.want_samples {
            self.samples.push(v);
        }
    }

    pub fn violation(&mut self, clause: &str, class: &str, what: &str, witness: Value) {
        let signature = format!("{}|{}|{}", self.prop, clause, class);
        self.violations.push(Violation {
            signature,
            what: what.to_string(),
            witness,
            index: self.index,
        });
    }

    pub fn has_violation(&self) -> bool {
        !self.violations.is_empty()
    }
}

// ---------------------------------------------------------------------------------------
// panic capture

pub struct CapturedPanic {
    pub message: String,
    pub location: String,
    pub frame: String,
}

thread_local! {
    static LAST_PANIC: std::cell::RefCell<Option<CapturedPanic>> = const { std::cell::RefCell::new(None) };
}

fn normalise_numbers(s: &str) -> String {
    let mut out = String::with_capacity(s.len());
    let mut in_num = false;
    for c in s.chars() {
        if c.is_ascii_digit() {
            if !in_num {
                out.push('N');
                in_num = true;
            }
        } else {
            in_num = false;
            out.push(c);
        }
    }
    if out.len() > 160 {
        let mut cut = 160;
        while !out.is_char_boundary(cut) {
            cut -= 1;
        }
        out.truncate(cut);
    }
    out
}

fn clean_symbol(sym: &str) -> String {
    let mut s = sym.trim().to_string();
    // strip trailing hash `::h0123456789abcdef`
    if let Some(pos) = s.rfind("::h") {
        let tail = &s[pos + 3..];
        if tail.len() == 16 && tail.chars().all(|c| c.is_ascii_hexdigit()) {
            s.truncate(pos);
        }
    }
    s = s.replace("::{{closure}}", "");
    s = s.replace("::{closure#0}", "");
    s
}

/// First frame of the backtrace that belongs to the code under test.
fn first_subject_frame(bt: &str) -> String {
    for line in bt.lines() {
        let t = line.trim_start();
        let Some(colon) = t.find(": ") else { continue };
        if !t[..colon].chars().all(|c| c.is_ascii_digit()) || colon == 0 {
            continue;
        }
        let sym = &t[colon + 2..];
        if sym.contains("okane_verif::") {
            continue;
        }
        // the symbol itself (not a generic argument of a std function) must live in the subject crates.
        let head = sym.trim_start_matches('<').trim_start_matches('&').trim_start_matches("mut ");
        if head.starts_with("okane_core::") || head.starts_with("okane::") || head.starts_with("okane_golden::") {
            return clean_symbol(sym);
        }
    }
    "?".to_string()
}

pub fn install_panic_hook() {
    std::panic::set_hook(Box::new(|info| {
        let message = if let Some(s) = info.payload().downcast_ref::<&str>() {
            s.to_string()
        } else if let Some(s) = info.payload().downcast_ref::<String>() {
            s.clone()
        } else {
            "<non-string panic>".to_string()
        };
        let location = info
            .location()
            .map(|l| format!("{}:{}", l.file(), l.line()))
            .unwrap_or_default();
        let bt = std::backtrace::Backtrace::force_capture().to_string();
        let frame = first_subject_frame(&bt);
        LAST_PANIC.with(|p| {
            *p.borrow_mut() = Some(CapturedPanic {
                message,
                location,
                frame,
            })
        });
    }));
}

pub fn take_panic() -> Option<CapturedPanic> {
    LAST_PANIC.with(|p| p.borrow_mut().take())
}

/// rust_decimal's own panics for results outside its 96-bit range (not division by zero).
pub fn is_decimal_range_overflow(msg: &str) -> bool {
    matches!(
        msg,
        "Multiplication overflowed" | "Addition overflowed" | "Subtraction overflowed" | "Division overflowed"
    )
}

/// Run `f` on the real code; a panic becomes a violation of the running property.
/// Returns None if it panicked.
pub fn guarded<T, F: FnOnce() -> T>(rec: &mut Recorder, f: F) -> Option<T> {
    let r = std::panic::catch_unwind(std::panic::AssertUnwindSafe(f));
    match r {
        Ok(v) => Some(v),
        Err(_) => {
            let p = take_panic().unwrap_or(CapturedPanic {
                message: "?".into(),
                location: "?".into(),
                frame: "?".into(),
            });
            if rec.excuse_decimal_overflow && is_decimal_range_overflow(&p.message) {
                // an intermediate result left the representable decimal range: outside the
                // hypothesis of every property ("as long as numbers stay within the range").
                rec.count("excused:decimal-range-overflow");
                rec.skip();
                return None;
            }
            let class = format!("{}|{}", p.frame, normalise_numbers(&p.message));
            let what = format!(
                "panic in {} during {}: {}",
                p.frame, rec.cur_label, p.message
            );
            let witness = json!({
                "op": rec.cur_label,
                "input": rec.cur_input,
                "panic_message": p.message,
                "panic_location": p.location,
                "first_subject_frame": p.frame,
            });
            rec.count("crash:panic");
            rec.violation("panic", &class, &what, witness);
            None
        }
    }
}

// ---------------------------------------------------------------------------------------
// worker

#[repr(C)]
pub struct ITimerVal {
    pub it_interval: libc::timeval,
    pub it_value: libc::timeval,
}

extern "C" {
    pub fn setitimer(which: libc::c_int, new_value: *const ITimerVal, old_value: *mut ITimerVal) -> libc::c_int;
}

pub const ITIMER_PROF: libc::c_int = 2;

fn set_case_timer(secs: u64) {
    let tv = ITimerVal {
        it_interval: libc::timeval {
            tv_sec: 0,
            tv_usec: 0,
        },
        it_value: libc::timeval {
            tv_sec: secs as libc::time_t,
            tv_usec: 0,
        },
    };
    unsafe {
        setitimer(ITIMER_PROF, &tv, std::ptr::null_mut());
    }
}

fn set_rlimit_as(bytes: u64) {
    let lim = libc::rlimit {
        rlim_cur: bytes,
        rlim_max: bytes,
    };
    unsafe {
        libc::setrlimit(libc::RLIMIT_AS, &lim);
    }
}

fn emit_line(out: &mut impl Write, v: &Value) {
    let s = serde_json::to_string(v).unwrap();
    let _ = out.write_all(s.as_bytes());
    let _ = out.write_all(b"\n");
    let _ = out.flush();
}

pub fn worker_main(check: &dyn Check, tier: Tier, seed: u64, start: u64, end: u64, cur_path: &str) -> i32 {
    install_panic_hook();
    set_rlimit_as(8 << 30);
    let scratch = PathBuf::from(format!("{}/out/tmp/w{}", VERIF_ROOT, std::process::id()));
    let _ = std::fs::create_dir_all(&scratch);
    let ctx = Ctx {
        seed,
        tier,
        scratch: scratch.clone(),
        cli_a: std::env::var("VERIF_CLI_A").ok().filter(|s| !s.is_empty()).map(PathBuf::from).unwrap_or_else(|| PathBuf::from(format!("{}/.build/cli-a/release/okane", VERIF_ROOT))),
        cli_b: std::env::var("VERIF_CLI_B").ok().filter(|s| !s.is_empty()).map(PathBuf::from).unwrap_or_else(|| PathBuf::from(format!("{}/.build/cli-b/release/okane", VERIF_ROOT))),
    };
    let cur_file = std::fs::OpenOptions::new()
        .create(true)
        .write(true)
        .truncate(true)
        .open(cur_path)
        .ok();
    let mut rec = Recorder::new(check.id(), cur_file);
    rec.want_samples = if start == 0 { 4 } else { 1 };
    let stdout = std::io::stdout();
    let mut out = stdout.lock();
    let limit = check.case_cpu_limit();
    let mut since_flush = 0u64;
    let mut evaluated = 0u64;
    // witnesses are sent for the first few violations of a signature only; the rest are counted
    let mut sent_per_sig: BTreeMap<String, u64> = BTreeMap::new();
    let mut counted_only: BTreeMap<String, u64> = BTreeMap::new();
    for idx in start..end {
        // begin marker (plain text: the driver reads millions of these)
        let _ = writeln!(out, "B {}", idx);
        rec.index = idx;
        rec.marks_in_case = 0;
        rec.op("case", "");
        set_case_timer(limit);
        let before = rec.violations.len();
        let r = std::panic::catch_unwind(std::panic::AssertUnwindSafe(|| {
            check.run(&ctx, idx, &mut rec);
        }));
        set_case_timer(0);
        if r.is_err() {
            // a panic outside `guarded`: either okane code called unguarded or a harness bug.
            let p = take_panic().unwrap_or(CapturedPanic {
                message: "?".into(),
                location: "?".into(),
                frame: "?".into(),
            });
            if p.frame == "?" {
                // harness-internal failure: never a verdict on okane.
                emit_line(
                    &mut out,
                    &json!({"t": "X", "i": idx, "msg": format!("harness panic at {}: {}", p.location, p.message)}),
                );
            } else {
                let class = format!("{}|{}", p.frame, normalise_numbers(&p.message));
                let witness = json!({"op": rec.cur_label, "input": rec.cur_input,
                    "panic_message": p.message, "panic_location": p.location, "first_subject_frame": p.frame});
                rec.count("crash:panic");
                rec.violation("panic", &class, &format!("panic in {}: {}", p.frame, p.message), witness);
            }
        }
        evaluated += 1;
        since_flush += 1;
        for v in rec.violations.drain(before..) {
            let n = sent_per_sig.entry(v.signature.clone()).or_insert(0);
            *n += 1;
            if *n <= 3 {
                emit_line(
                    &mut out,
                    &json!({"t": "V", "i": v.index, "sig": v.signature, "what": v.what, "witness": v.witness}),
                );
            } else {
                *counted_only.entry(v.signature).or_insert(0) += 1;
            }
        }
        if since_flush >= 5000 || idx + 1 == end {
            let hashes: Vec<String> = rec.nontrivial.drain(..).map(|h| format!("{:x}", h)).collect();
            emit_line(
                &mut out,
                &json!({"t": "S", "n": evaluated + rec.extra_evaluations, "skipped": rec.skipped, "counters": rec.counters,
                    "nontrivial": hashes, "samples": rec.samples, "more_violations": counted_only}),
            );
            rec.counters.clear();
            counted_only.clear();
            rec.samples.clear();
            rec.want_samples = 0;
            rec.skipped = 0;
            rec.extra_evaluations = 0;
            evaluated = 0;
            since_flush = 0;
        }
    }
    emit_line(&mut out, &json!({"t": "D"}));
    let _ = std::fs::remove_dir_all(&scratch);
    let _ = std::fs::remove_file(cur_path);
    0
}

// ---------------------------------------------------------------------------------------
// driver

#[derive(Default)]
struct Agg {
    evaluations: u64,
    skipped: u64,
    counters: BTreeMap<String, u64>,
    nontrivial: HashSet<u64>,
    samples: Vec<Value>,
    violations: Vec<Violation>,
    harness_errors: Vec<String>,
    inconclusive: Vec<String>,
    /// violations beyond the first few per signature and worker: counted, witnesses not sent
    more_violations: BTreeMap<String, u64>,
}

struct Finding {
    property: String,
    signature: String,
    status: String,
    what: String,
}

fn load_known_findings() -> Vec<Finding> {
    let path = format!("{}/known_findings.json", VERIF_ROOT);
    let Ok(text) = std::fs::read_to_string(&path) else {
        return Vec::new();
    };
    let v: Value = serde_json::from_str(&text).unwrap_or(json!({}));
    let mut out = Vec::new();
    if let Some(arr) = v.get("findings").and_then(|x| x.as_array()) {
        for f in arr {
            out.push(Finding {
                property: f["property"].as_str().unwrap_or("").to_string(),
                signature: f["signature"].as_str().unwrap_or("").to_string(),
                status: f["status"].as_str().unwrap_or("").to_string(),
                what: f["what"].as_str().unwrap_or("").to_string(),
            });
        }
    }
    out
}

fn signal_name(sig: i32) -> String {
    match sig {
        libc::SIGPROF => "SIGPROF(cpu-limit)".into(),
        libc::SIGXCPU => "SIGXCPU(cpu-limit)".into(),
        libc::SIGSEGV => "SIGSEGV".into(),
        libc::SIGABRT => "SIGABRT".into(),
        libc::SIGKILL => "SIGKILL".into(),
        libc::SIGBUS => "SIGBUS".into(),
        n => format!("signal {}", n),
    }
}

fn read_cur_file(path: &str) -> (String, String) {
    let Ok(bytes) = std::fs::read(path) else {
        return (String::new(), String::new());
    };
    if bytes.len() < 8 {
        return (String::new(), String::new());
    }
    let len = u64::from_le_bytes(bytes[0..8].try_into().unwrap()) as usize;
    let body = &bytes[8..std::cmp::min(bytes.len(), 8 + len)];
    let split = body.iter().position(|b| *b == 0).unwrap_or(body.len());
    let label = String::from_utf8_lossy(&body[..split]).to_string();
    let input = if split < body.len() {
        String::from_utf8_lossy(&body[split + 1..]).to_string()
    } else {
        String::new()
    };
    (label, input)
}

struct Shared<'a> {
    check: &'a dyn Check,
    tier: Tier,
    seed: u64,
    next: AtomicU64,
    total: u64,
    chunk: u64,
    stop: AtomicBool,
    agg: Mutex<Agg>,
    new_violation_cap: usize,
    known: Vec<Finding>,
    children: Mutex<Vec<u32>>,
}

impl Shared<'_> {
    fn is_open_known(&self, sig: &str) -> bool {
        self.known
            .iter()
            .any(|f| f.status == "open" && f.signature == sig)
    }

    fn push_violation(&self, v: Violation) {
        let mut agg = self.agg.lock().unwrap();
        agg.violations.push(v);
        let new = agg
            .violations
            .iter()
            .filter(|v| !self.is_open_known(&v.signature))
            .count();
        if new >= self.new_violation_cap {
            self.stop.store(true, Ordering::SeqCst);
        }
    }
}

fn run_range(sh: &Shared, slot: usize, mut start: u64, end: u64) {
    let exe = std::env::current_exe().expect("current_exe");
    let cur_path = format!("{}/out/tmp/cur-{}-{}", VERIF_ROOT, std::process::id(), slot);
    let err_path = format!("{}/out/tmp/err-{}-{}", VERIF_ROOT, std::process::id(), slot);
    let mut respawns = 0;
    while start < end && !sh.stop.load(Ordering::SeqCst) {
        let err_file = std::fs::File::create(&err_path).expect("stderr file");
        let mut child = match Command::new(&exe)
            .arg("worker")
            .arg(sh.check.id())
            .arg(sh.tier.name())
            .arg(sh.seed.to_string())
            .arg(start.to_string())
            .arg(end.to_string())
            .arg(&cur_path)
            .stdin(Stdio::null())
            .stdout(Stdio::piped())
            .stderr(Stdio::from(err_file))
            .env("RUST_BACKTRACE", "0")
            .spawn()
        {
            Ok(c) => c,
            Err(e) => {
                sh.agg
                    .lock()
                    .unwrap()
                    .inconclusive
                    .push(format!("cannot spawn worker: {}", e));
                return;
            }
        };
        sh.children.lock().unwrap().push(child.id());
        let stdout = child.stdout.take().unwrap();
        let reader = BufReader::new(stdout);
        let mut last_b: Option<u64> = None;
        let mut done = false;
        let mut since_summary = 0u64;
        for line in reader.lines() {
            let Ok(line) = line else { break };
            if let Some(rest) = line.strip_prefix("B ") {
                last_b = rest.trim().parse::<u64>().ok();
                since_summary += 1;
                continue;
            }
            let Ok(v) = serde_json::from_str::<Value>(&line) else {
                continue;
            };
            match v["t"].as_str().unwrap_or("") {
                "B" => {
                    last_b = v["i"].as_u64();
                    since_summary += 1;
                }
                "S" => {
                    let mut agg = sh.agg.lock().unwrap();
                    agg.evaluations += v["n"].as_u64().unwrap_or(0);
                    agg.skipped += v["skipped"].as_u64().unwrap_or(0);
                    since_summary = 0;
                    if let Some(c) = v["counters"].as_object() {
                        for (k, n) in c {
                            *agg.counters.entry(k.clone()).or_insert(0) += n.as_u64().unwrap_or(0);
                        }
                    }
                    if let Some(hs) = v["nontrivial"].as_array() {
                        for h in hs {
                            if let Some(h) = h.as_str().and_then(|s| u64::from_str_radix(s, 16).ok()) {
                                agg.nontrivial.insert(h);
                            }
                        }
                    }
                    if let Some(mv) = v["more_violations"].as_object() {
                        for (sig, n) in mv {
                            *agg.more_violations.entry(sig.clone()).or_insert(0) += n.as_u64().unwrap_or(0);
                        }
                    }
                    if let Some(ss) = v["samples"].as_array() {
                        for s in ss {
                            if agg.samples.len() < 5 {
                                agg.samples.push(s.clone());
                            }
                        }
                    }
                }
                "V" => {
                    sh.push_violation(Violation {
                        signature: v["sig"].as_str().unwrap_or("").to_string(),
                        what: v["what"].as_str().unwrap_or("").to_string(),
                        witness: v["witness"].clone(),
                        index: v["i"].as_u64().unwrap_or(0),
                    });
                    if sh.stop.load(Ordering::SeqCst) {
                        let _ = child.kill();
                    }
                }
                "X" => {
                    sh.agg
                        .lock()
                        .unwrap()
                        .harness_errors
                        .push(format!("case {}: {}", v["i"], v["msg"].as_str().unwrap_or("")));
                }
                "D" => done = true,
                _ => {}
            }
        }
        let status = child.wait();
        {
            let mut ch = sh.children.lock().unwrap();
            let id = child.id();
            ch.retain(|p| *p != id);
        }
        if done {
            break;
        }
        if sh.stop.load(Ordering::SeqCst) {
            // stopped early (violation cap or watchdog): cases begun since the last summary still ran
            sh.agg.lock().unwrap().evaluations += since_summary;
            break;
        }
        // abnormal end: charge it to the open case.
        {
            let mut agg = sh.agg.lock().unwrap();
            agg.evaluations += since_summary;
        }
        let stderr_text = std::fs::read_to_string(&err_path).unwrap_or_default();
        let idx = last_b.unwrap_or(start);
        let (label, input) = read_cur_file(&cur_path);
        match status {
            Ok(st) => {
                if let Some(sig) = st.signal() {
                    let (clause, class) = if sig == libc::SIGPROF || sig == libc::SIGXCPU {
                        ("hang".to_string(), format!("op={}", label))
                    } else if stderr_text.contains("has overflowed its stack") {
                        ("abort".to_string(), format!("stack-overflow|op={}", label))
                    } else if stderr_text.contains("memory allocation of") {
                        ("abort".to_string(), format!("alloc-failure|op={}", label))
                    } else {
                        ("abort".to_string(), format!("{}|op={}", signal_name(sig), label))
                    };
                    let what = format!(
                        "worker killed by {} while running {} (case {})",
                        signal_name(sig),
                        label,
                        idx
                    );
                    let tail: String = stderr_text.chars().rev().take(600).collect::<String>().chars().rev().collect();
                    sh.push_violation(Violation {
                        signature: format!("{}|{}|{}", sh.check.id(), clause, class),
                        what,
                        witness: json!({"op": label, "input": input, "signal": signal_name(sig), "stderr_tail": tail}),
                        index: idx,
                    });
                } else {
                    // exited with a status without finishing: harness problem, not a verdict.
                    let mut agg = sh.agg.lock().unwrap();
                    agg.inconclusive.push(format!(
                        "worker for [{}, {}) exited with {:?} at case {} without finishing; stderr: {}",
                        start,
                        end,
                        st.code(),
                        idx,
                        stderr_text.chars().take(400).collect::<String>()
                    ));
                    let _ = std::fs::remove_file(&cur_path);
                    let _ = std::fs::remove_file(&err_path);
                    return;
                }
            }
            Err(e) => {
                sh.agg
                    .lock()
                    .unwrap()
                    .inconclusive
                    .push(format!("wait failed: {}", e));
                return;
            }
        }
        start = idx + 1;
        respawns += 1;
        if respawns > 400 {
            sh.agg.lock().unwrap().inconclusive.push(format!(
                "more than 400 abnormal worker exits in one chunk ending at {}; giving up on it",
                end
            ));
            break;
        }
    }
    let _ = std::fs::remove_file(&cur_path);
    let _ = std::fs::remove_file(&err_path);
}

pub struct RunOutcome {
    pub exit_code: i32,
}

pub fn driver_main(check: &dyn Check, tier: Tier, seed: u64) -> RunOutcome {
    let t0 = Instant::now();
    let _ = std::fs::create_dir_all(format!("{}/out/tmp", VERIF_ROOT));
    let _ = std::fs::create_dir_all(format!("{}/evidence", VERIF_ROOT));
    let total = check.cases(tier);
    let sh = Shared {
        check,
        tier,
        seed,
        next: AtomicU64::new(0),
        total,
        chunk: check.chunk(tier),
        stop: AtomicBool::new(false),
        agg: Mutex::new(Agg::default()),
        new_violation_cap: 25,
        known: load_known_findings(),
        children: Mutex::new(Vec::new()),
    };
    let sh = Arc::new(sh);
    let nworkers = check.workers(tier);
    // generous wall-clock watchdog: its firing is inconclusive, never a violation.
    let wall_budget = Duration::from_secs(tier.pick(1800, 6 * 3600));
    let finished = std::thread::scope(|scope| {
        let mut handles = Vec::new();
        for slot in 0..nworkers {
            let sh = Arc::clone(&sh);
            handles.push(scope.spawn(move || loop {
                if sh.stop.load(Ordering::SeqCst) {
                    break;
                }
                let start = sh.next.fetch_add(sh.chunk, Ordering::SeqCst);
                if start >= sh.total {
                    break;
                }
                let end = std::cmp::min(sh.total, start + sh.chunk);
                run_range(&sh, slot, start, end);
            }));
        }
        // watchdog loop
        loop {
            if handles.iter().all(|h| h.is_finished()) {
                return true;
            }
            if t0.elapsed() > wall_budget {
                sh.stop.store(true, Ordering::SeqCst);
                for pid in sh.children.lock().unwrap().iter() {
                    unsafe {
                        libc::kill(*pid as i32, libc::SIGKILL);
                    }
                }
                return false;
            }
            std::thread::sleep(Duration::from_millis(50));
        }
    });
    let id = check.id();
    let mut agg = std::mem::take(&mut *sh.agg.lock().unwrap());
    if !finished {
        agg.inconclusive.push(format!(
            "wall-clock watchdog ({} s) fired",
            wall_budget.as_secs()
        ));
    }

    // classify violations
    let mut known_seen: BTreeMap<String, (String, u64)> = BTreeMap::new();
    let mut new_by_sig: BTreeMap<String, Vec<Violation>> = BTreeMap::new();
    for v in &agg.violations {
        if let Some(f) = sh
            .known
            .iter()
            .find(|f| f.status == "open" && f.signature == v.signature)
        {
            let e = known_seen
                .entry(v.signature.clone())
                .or_insert((f.what.clone(), 0));
            e.1 += 1;
        } else {
            new_by_sig.entry(v.signature.clone()).or_default().push(v.clone());
        }
    }
    for (sig, n) in &agg.more_violations {
        if let Some(e) = known_seen.get_mut(sig) {
            e.1 += n;
        }
    }
    let mut replay_paths = Vec::new();
    let replay_dir = format!("{}/out/replay/{}", VERIF_ROOT, id);
    if !new_by_sig.is_empty() {
        let _ = std::fs::create_dir_all(&replay_dir);
    }
    for (sig, vs) in &new_by_sig {
        // smallest witness of each signature is kept as the replay file.
        let v = vs
            .iter()
            .min_by_key(|v| serde_json::to_string(&v.witness).map(|s| s.len()).unwrap_or(0))
            .unwrap();
        let was_fixed = sh
            .known
            .iter()
            .any(|f| f.status == "fixed" && f.signature == *sig);
        let path = format!("{}/{:016x}.json", replay_dir, fnv64(sig.as_bytes()));
        let doc = json!({
            "property": id,
            "signature": sig,
            "what": v.what,
            "seed": seed,
            "tier": tier.name(),
            "index": v.index,
            "occurrences": vs.len() as u64 + agg.more_violations.get(sig).copied().unwrap_or(0),
            "regression_of_fixed_finding": was_fixed,
            "witness": v.witness,
            "replay_cmd": format!("./check {} --replay {}", id, path),
        });
        let _ = std::fs::write(&path, serde_json::to_string_pretty(&doc).unwrap());
        replay_paths.push((sig.clone(), path, v.what.clone(), vs.len()));
    }

    let distinct = agg.nontrivial.len() as u64;
    let wall_s = t0.elapsed().as_secs_f64();
    let mut coverage = json!({
        "evaluations": agg.evaluations,
        "distinct_nontrivial": distinct,
        "rule": check.rule(),
        "samples": agg.samples,
        "skipped_outside_hypothesis": agg.skipped,
        "counters": agg.counters,
        "known_findings_seen": known_seen.iter().map(|(s, (w, n))| json!({"signature": s, "what": w, "occurrences": n})).collect::<Vec<_>>(),
        "new_violation_signatures": new_by_sig.keys().collect::<Vec<_>>(),
        "workers": nworkers,
        "planned_cases": total,
    });
    if let Some(desc) = check.exhaustive(tier) {
        coverage["exhaustive"] = json!(true);
        coverage["exhaustive_scope"] = json!(desc);
    }
    let evidence = json!({
        "property_id": id,
        "tier": tier.name(),
        "seed": seed,
        "level": "exploration",
        "coverage": coverage,
        "assumptions": check.assumptions(),
        "wall_s": (wall_s * 100.0).round() / 100.0,
        "violations": new_by_sig.values().map(|v| v.len() as i64).sum::<i64>(),
        "inconclusive": agg.inconclusive,
        "harness_errors": agg.harness_errors.iter().take(10).collect::<Vec<_>>(),
    });
    let ev_path = format!("{}/evidence/{}.json", VERIF_ROOT, id);
    let _ = std::fs::write(&ev_path, serde_json::to_string_pretty(&evidence).unwrap() + "\n");

    println!(
        "[{}] tier={} seed={} evaluations={} distinct_nontrivial={} skipped={} wall={:.1}s",
        id,
        tier.name(),
        seed,
        agg.evaluations,
        distinct,
        agg.skipped,
        wall_s
    );
    let mut keys: BTreeSet<&String> = BTreeSet::new();
    keys.extend(agg.counters.keys());
    let line: Vec<String> = keys
        .iter()
        .map(|k| format!("{}={}", k, agg.counters[*k]))
        .collect();
    println!("[{}] observed: {}", id, line.join(" "));
    for (_sig, (what, n)) in &known_seen {
        println!("KNOWN-FINDING: property={} {} (seen {}x)", id, what, n);
    }
    let mut code = 0;
    for (sig, path, what, n) in &replay_paths {
        println!("[{}] violation signature {} ({}x): {}", id, sig, n, what);
        println!("VIOLATION property={} replay={}", id, path);
        code = 1;
    }
    if code == 0 {
        if !agg.harness_errors.is_empty() {
            println!(
                "INCONCLUSIVE property={} harness errors: {}",
                id,
                agg.harness_errors.iter().take(3).cloned().collect::<Vec<_>>().join(" ;; ")
            );
            code = 2;
        } else if !agg.inconclusive.is_empty() {
            println!("INCONCLUSIVE property={} {}", id, agg.inconclusive.join(" ;; "));
            code = 2;
        } else if distinct < check.min_nontrivial(tier) {
            println!(
                "INCONCLUSIVE property={} observed only {} distinct non-trivial cases (< {})",
                id,
                distinct,
                check.min_nontrivial(tier)
            );
            code = 2;
        }
    }
    let _ = Path::new(&ev_path);
    RunOutcome { exit_code: code }
}

/// Re-run one recorded case against the current tree.
pub fn replay_main(check: &dyn Check, path: &str) -> i32 {
    install_panic_hook();
    let Ok(text) = std::fs::read_to_string(path) else {
        println!("cannot read replay file {}", path);
        return 2;
    };
    let Ok(doc) = serde_json::from_str::<Value>(&text) else {
        println!("replay file {} is not JSON", path);
        return 2;
    };
    let seed = doc["seed"].as_u64().unwrap_or(0);
    let tier = Tier::parse(doc["tier"].as_str().unwrap_or("quick")).unwrap_or(Tier::Quick);
    let idx = doc["index"].as_u64().unwrap_or(0);
    let want_sig = doc["signature"].as_str().unwrap_or("").to_string();
    let exe = std::env::current_exe().expect("current_exe");
    let cur_path = format!("{}/out/tmp/cur-replay-{}", VERIF_ROOT, std::process::id());
    let _ = std::fs::create_dir_all(format!("{}/out/tmp", VERIF_ROOT));
    let out = Command::new(&exe)
        .arg("worker")
        .arg(check.id())
        .arg(tier.name())
        .arg(seed.to_string())
        .arg(idx.to_string())
        .arg((idx + 1).to_string())
        .arg(&cur_path)
        .stdin(Stdio::null())
        .output();
    let Ok(out) = out else {
        println!("cannot spawn worker");
        return 2;
    };
    let mut reproduced = false;
    let mut any = false;
    for line in String::from_utf8_lossy(&out.stdout).lines() {
        if let Ok(v) = serde_json::from_str::<Value>(line) {
            if v["t"] == "V" {
                any = true;
                println!("violation {}: {}", v["sig"].as_str().unwrap_or(""), v["what"].as_str().unwrap_or(""));
                if v["sig"].as_str() == Some(want_sig.as_str()) {
                    reproduced = true;
                }
            }
        }
    }
    if let Some(sig) = out.status.signal() {
        println!("worker killed by {}", signal_name(sig));
        any = true;
        reproduced = true;
    }
    let _ = std::fs::remove_file(&cur_path);
    if reproduced {
        println!("VIOLATION property={} replay={}", check.id(), path);
        1
    } else if any {
        println!("a different violation was observed for this case");
        println!("VIOLATION property={} replay={}", check.id(), path);
        1
    } else {
        println!("case {} (seed {}) no longer violates {}", idx, seed, check.id());
        0
    }
}
