//! Small deterministic PRNG (splitmix64 seeding + xoshiro256**). No external crates.

#[derive(Clone)]
pub struct Rng {
    s: [u64; 4],
}

fn splitmix(x: &mut u64) -> u64 {
    *x = x.wrapping_add(0x9E3779B97F4A7C15);
    let mut z = *x;
    z = (z ^ (z >> 30)).wrapping_mul(0xBF58476D1CE4E5B9);
    z = (z ^ (z >> 27)).wrapping_mul(0x94D049BB133111EB);
    z ^ (z >> 31)
}

pub fn fnv64(bytes: &[u8]) -> u64 {
    let mut h: u64 = 0xcbf29ce484222325;
    for b in bytes {
        h ^= *b as u64;
        h = h.wrapping_mul(0x100000001b3);
    }
    h
}

impl Rng {
    /// Case `idx` of property `prop` under `seed` always gets the same stream.
    pub fn for_case(seed: u64, prop: &str, idx: u64) -> Rng {
        let mut x = seed ^ fnv64(prop.as_bytes()).rotate_left(17) ^ idx.wrapping_mul(0xD6E8FEB86659FD93);
        let mut s = [0u64; 4];
        for v in s.iter_mut() {
            *v = splitmix(&mut x);
        }
        Rng { s }
    }

    pub fn next_u64(&mut self) -> u64 {
        let result = self.s[1].wrapping_mul(5).rotate_left(7).wrapping_mul(9);
        let t = self.s[1] << 17;
        self.s[2] ^= self.s[0];
        self.s[3] ^= self.s[1];
        self.s[1] ^= self.s[2];
        self.s[0] ^= self.s[3];
        self.s[2] ^= t;
        self.s[3] = self.s[3].rotate_left(45);
        result
    }

    /// Uniform in [0, n). n must be > 0.
    pub fn below(&mut self, n: u64) -> u64 {
        debug_assert!(n > 0);
        // multiply-shift; bias is negligible for our n.
        ((self.next_u64() as u128 * n as u128) >> 64) as u64
    }

    pub fn usize(&mut self, n: usize) -> usize {
        self.below(n as u64) as usize
    }

    /// Uniform in [lo, hi] inclusive.
    pub fn range(&mut self, lo: i64, hi: i64) -> i64 {
        lo + self.below((hi - lo + 1) as u64) as i64
    }

    /// True with probability num/den.
    pub fn chance(&mut self, num: u64, den: u64) -> bool {
        self.below(den) < num
    }

    pub fn pick<'a, T>(&mut self, xs: &'a [T]) -> &'a T {
        &xs[self.usize(xs.len())]
    }

    pub fn pick_str(&mut self, xs: &[&'static str]) -> &'static str {
        xs[self.usize(xs.len())]
    }

    pub fn shuffle<T>(&mut self, xs: &mut [T]) {
        for i in (1..xs.len()).rev() {
            let j = self.usize(i + 1);
            xs.swap(i, j);
        }
    }
}
