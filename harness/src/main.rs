//! `ov` — driver, worker and replay entry point of the okane verification harness.

mod checks;
mod cli;
mod engine;
mod gen;
mod model;
mod ops;
mod rng;

use engine::{Check, Tier};

fn find_check(id: &str) -> Option<&'static dyn Check> {
    checks::all().into_iter().find(|c| c.id() == id)
}

fn usage() -> ! {
    eprintln!("usage: ov run <Cnn> <quick|thorough> | ov replay <Cnn> <path> | ov worker ... | ov list");
    std::process::exit(2);
}

fn main() {
    let args: Vec<String> = std::env::args().collect();
    if args.len() < 2 {
        usage();
    }
    match args[1].as_str() {
        "list" => {
            for c in checks::all() {
                println!("{}", c.id());
            }
        }
        "run" => {
            if args.len() < 4 {
                usage();
            }
            let Some(check) = find_check(&args[2]) else {
                eprintln!("unknown property {}", args[2]);
                std::process::exit(2);
            };
            let Some(tier) = Tier::parse(&args[3]) else { usage() };
            let seed = std::env::var("VERIF_SEED")
                .ok()
                .and_then(|s| s.trim().parse::<u64>().ok())
                .unwrap_or(1);
            let out = engine::driver_main(check, tier, seed);
            std::process::exit(out.exit_code);
        }
        "replay" => {
            if args.len() < 4 {
                usage();
            }
            let Some(check) = find_check(&args[2]) else {
                eprintln!("unknown property {}", args[2]);
                std::process::exit(2);
            };
            std::process::exit(engine::replay_main(check, &args[3]));
        }
        "dump-cases" => {
            // ov dump-cases <n> <seed> <dir>: writes n small ledgers for the sanitizer passes
            // (cases.txt for the Miri probe, one file per ledger for memcheck)
            if args.len() < 5 {
                usage();
            }
            let n: u64 = args[2].parse().unwrap_or(8);
            let seed: u64 = args[3].parse().unwrap_or(1);
            std::process::exit(checks::sanitizer_cases::dump(n, seed, &args[4]));
        }
        "worker" => {
            if args.len() < 8 {
                usage();
            }
            let Some(check) = find_check(&args[2]) else {
                std::process::exit(3);
            };
            let tier = Tier::parse(&args[3]).unwrap_or(Tier::Quick);
            let seed: u64 = args[4].parse().unwrap_or(1);
            let start: u64 = args[5].parse().unwrap_or(0);
            let end: u64 = args[6].parse().unwrap_or(0);
            std::process::exit(engine::worker_main(check, tier, seed, start, end, &args[7]));
        }
        _ => usage(),
    }
}
