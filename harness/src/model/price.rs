//! Reference price model, written from the C09 statement: dated price records per unordered
//! commodity pair, price-DB records displacing ledger-derived ones for the same pair, the
//! most recent record on or before the query date per step, reciprocal for the reverse
//! direction, and a brute-force search over all simple conversion chains ordered by
//! (ledger-derived steps, steps, staleness).

use std::collections::{BTreeMap, BTreeSet};

use chrono::NaiveDate;

use crate::model::q::Q;

#[derive(Clone, Copy, Debug, PartialEq, Eq, PartialOrd, Ord)]
pub enum Source {
    Ledger,
    PriceDb,
}

/// `qty_x X = qty_y Y` observed on `date`.
#[derive(Clone, Debug)]
pub struct Event {
    pub date: NaiveDate,
    pub source: Source,
    pub x: String,
    pub qty_x: Q,
    pub y: String,
    pub qty_y: Q,
}

#[derive(Clone, Debug, Default)]
pub struct PriceModel {
    /// key (a, b) with a < b; value: (source in force, [(date, rate a->b)])
    pairs: BTreeMap<(String, String), (Source, Vec<(NaiveDate, Q)>)>,
    pub commodities: BTreeSet<String>,
}

#[derive(Clone, Debug, PartialEq, Eq, PartialOrd, Ord)]
pub struct Dist {
    pub ledger_hops: usize,
    pub hops: usize,
}

#[derive(Clone, Debug)]
pub struct Chain {
    pub dist: Dist,
    pub max_stale: i64,
    pub sum_stale: i64,
    /// every admissible product of step rates (several when a step has more than one record on
    /// its most recent date)
    pub rates: Vec<Q>,
    pub path: Vec<String>,
}

#[derive(Clone, Debug)]
pub enum Conversion {
    Identity,
    NoChain,
    /// chains that are optimal under (ledger hops, hops, staleness) with staleness read either as
    /// the stalest step or as the sum over steps; `strict` = those optimal under the stalest-step
    /// reading (what the code's own distance uses)
    Chains { admissible: Vec<Chain>, strict: Vec<Chain> },
    ModelOverflow,
}

impl PriceModel {
    pub fn from_events(events: &[Event]) -> Option<PriceModel> {
        let mut m = PriceModel::default();
        for e in events {
            m.commodities.insert(e.x.clone());
            m.commodities.insert(e.y.clone());
            if e.x == e.y || e.qty_x.is_zero() || e.qty_y.is_zero() {
                continue;
            }
            // rate x -> y
            let r = e.qty_y.abs().div(e.qty_x.abs())?;
            let (key, rate) = if e.x < e.y { ((e.x.clone(), e.y.clone()), r) } else { ((e.y.clone(), e.x.clone()), Q::ONE.div(r)?) };
            let entry = m.pairs.entry(key).or_insert((e.source, Vec::new()));
            if e.source > entry.0 {
                entry.0 = e.source;
                entry.1.clear();
            }
            if e.source == entry.0 {
                entry.1.push((e.date, rate));
            }
        }
        Some(m)
    }

    /// Most recent records of the pair on or before `date`: (source, record date, rates a->b in the asked direction).
    fn step(&self, from: &str, to: &str, date: NaiveDate) -> Option<(Source, NaiveDate, Vec<Q>)> {
        let (key, flip) = if from < to { ((from.to_string(), to.to_string()), false) } else { ((to.to_string(), from.to_string()), true) };
        let (src, recs) = self.pairs.get(&key)?;
        let best = recs.iter().filter(|(d, _)| *d <= date).map(|(d, _)| *d).max()?;
        let mut rates = Vec::new();
        for (d, r) in recs {
            if *d == best {
                let r = if flip { Q::ONE.div(*r)? } else { *r };
                if !rates.contains(&r) {
                    rates.push(r);
                }
            }
        }
        Some((*src, best, rates))
    }

    pub fn neighbours(&self, c: &str) -> Vec<String> {
        let mut v = Vec::new();
        for (a, b) in self.pairs.keys() {
            if a == c {
                v.push(b.clone());
            } else if b == c {
                v.push(a.clone());
            }
        }
        v
    }

    pub fn convert(&self, from: &str, to: &str, date: NaiveDate) -> Conversion {
        if from == to {
            return Conversion::Identity;
        }
        let mut all: Vec<Chain> = Vec::new();
        let mut path = vec![from.to_string()];
        let mut overflow = false;
        self.dfs(to, date, &mut path, Dist { ledger_hops: 0, hops: 0 }, 0, 0, vec![Q::ONE], &mut all, &mut overflow);
        if overflow {
            return Conversion::ModelOverflow;
        }
        if all.is_empty() {
            return Conversion::NoChain;
        }
        let best = all.iter().map(|c| c.dist.clone()).min().unwrap();
        let shortest: Vec<Chain> = all.into_iter().filter(|c| c.dist == best).collect();
        let min_max = shortest.iter().map(|c| c.max_stale).min().unwrap();
        let min_sum = shortest.iter().map(|c| c.sum_stale).min().unwrap();
        let strict: Vec<Chain> = shortest.iter().filter(|c| c.max_stale == min_max).cloned().collect();
        let admissible: Vec<Chain> = shortest.into_iter().filter(|c| c.max_stale == min_max || c.sum_stale == min_sum).collect();
        Conversion::Chains { admissible, strict }
    }

    #[allow(clippy::too_many_arguments)]
    fn dfs(&self, to: &str, date: NaiveDate, path: &mut Vec<String>, dist: Dist, max_stale: i64, sum_stale: i64, rates: Vec<Q>, out: &mut Vec<Chain>, overflow: &mut bool) {
        let cur = path.last().unwrap().clone();
        if cur == to {
            out.push(Chain { dist, max_stale, sum_stale, rates, path: path.clone() });
            return;
        }
        if path.len() > 7 {
            return;
        }
        for n in self.neighbours(&cur) {
            if path.contains(&n) {
                continue;
            }
            let Some((src, d, step_rates)) = self.step(&cur, &n, date) else { continue };
            let stale = (date - d).num_days();
            let mut next_rates = Vec::new();
            for r in &rates {
                for s in &step_rates {
                    match r.mul(*s) {
                        Some(x) => {
                            if !next_rates.contains(&x) && next_rates.len() < 4096 {
                                next_rates.push(x)
                            }
                        }
                        None => {
                            *overflow = true;
                            return;
                        }
                    }
                }
            }
            path.push(n);
            self.dfs(
                to,
                date,
                path,
                Dist { ledger_hops: dist.ledger_hops + usize::from(src == Source::Ledger), hops: dist.hops + 1 },
                max_stale.max(stale),
                sum_stale + stale,
                next_rates,
                out,
                overflow,
            );
            path.pop();
        }
    }
}

#[cfg(test)]
mod tests {
    use super::*;

    fn d(day: u32) -> NaiveDate {
        NaiveDate::from_ymd_opt(2024, 1, day).unwrap()
    }
    fn ev(day: u32, src: Source, x: &str, qx: i128, y: &str, qy: i128) -> Event {
        Event { date: d(day), source: src, x: x.into(), qty_x: Q::int(qx), y: y.into(), qty_y: Q::int(qy) }
    }

    #[test]
    fn basics() {
        let m = PriceModel::from_events(&[ev(5, Source::Ledger, "A", 1, "B", 2), ev(7, Source::Ledger, "A", 1, "B", 3), ev(6, Source::PriceDb, "B", 1, "C", 10)]).unwrap();
        assert!(matches!(m.convert("A", "B", d(4)), Conversion::NoChain));
        match m.convert("A", "B", d(6)) {
            Conversion::Chains { strict, .. } => assert_eq!(strict[0].rates, vec![Q::int(2)]),
            _ => panic!(),
        }
        match m.convert("B", "A", d(7)) {
            Conversion::Chains { strict, .. } => assert_eq!(strict[0].rates, vec![Q::new(1, 3).unwrap()]),
            _ => panic!(),
        }
        match m.convert("A", "C", d(9)) {
            Conversion::Chains { strict, .. } => {
                assert_eq!(strict[0].rates, vec![Q::int(30)]);
                assert_eq!(strict[0].dist, Dist { ledger_hops: 1, hops: 2 });
                assert_eq!(strict[0].max_stale, 3);
            }
            _ => panic!(),
        }
        // price DB displaces ledger records of the same pair, whatever their dates
        let m = PriceModel::from_events(&[ev(5, Source::PriceDb, "A", 1, "B", 2), ev(7, Source::Ledger, "B", 1, "A", 5)]).unwrap();
        match m.convert("A", "B", d(9)) {
            Conversion::Chains { strict, .. } => assert_eq!(strict[0].rates, vec![Q::int(2)]),
            _ => panic!(),
        }
        assert!(matches!(m.convert("A", "B", d(4)), Conversion::NoChain));
    }
}
