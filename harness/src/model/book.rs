//! Reference book-keeping, written from the statements of C01-C04 (not from the code):
//! balancing value = lot price, else cost, else the amount; residual per commodity rounded
//! half-even at the declared precision; accepted iff all zero, or one unconstrained posting
//! absorbs the remainder; exactly two non-zero residuals of opposite sign *may* be accepted
//! (implied exchange); assertions and assignments evaluated in file order on exact balances.

use std::collections::BTreeMap;

use crate::gen::ledger::{AmountExpr, Entry, Ledger, Post, Price, Txn};
use crate::model::q::Q;

pub type Multi = BTreeMap<String, Q>;

pub fn multi_add(m: &mut Multi, c: &str, v: Q) -> Option<()> {
    let e = m.entry(c.to_string()).or_insert(Q::ZERO);
    *e = e.add(v)?;
    Some(())
}

pub fn prune(m: &mut Multi) {
    m.retain(|_, v| !v.is_zero());
}

pub fn pruned(m: &Multi) -> Multi {
    let mut m = m.clone();
    prune(&mut m);
    m
}

#[derive(Clone, Debug, PartialEq)]
pub enum Reject {
    /// residual matches none of the accepted shapes
    Unbalanced { residual: Multi, shape: &'static str },
    TwoUnconstrained,
    AssertionFailed { post: usize, account: String, expected: (Q, String), computed: Multi },
    /// `= 0` assignment on an account holding several commodities
    ZeroAssignMulti { post: usize },
}

#[derive(Clone, Debug, PartialEq)]
pub struct Accepted {
    /// Amount each posting moves (written, inferred or assigned), zero-valued entries pruned.
    pub amounts: Vec<Multi>,
    pub inferred: Option<usize>,
    pub assigned: Vec<usize>,
    /// Assertions evaluated: (posting index, account, expected, balance in that commodity / whole).
    pub assertions: Vec<(usize, String)>,
    /// Whole balance of the posting's account right after each posting (file order).
    pub balances_after: Vec<Multi>,
    /// Balance of the posting's account right before each posting.
    pub balances_before: Vec<Multi>,
    pub kind: &'static str,
}

#[derive(Clone, Debug, PartialEq)]
pub enum Outcome {
    MustAccept(Accepted),
    MustReject(Reject),
    /// Implied exchange: acceptance is permitted, not required. If accepted, amounts are as written.
    May(Accepted),
    /// The statement does not say (ill-formed posting, model overflow, ...): only "no crash" applies.
    Unspecified(&'static str),
}

#[derive(Clone, Debug, Default)]
pub struct State {
    pub balances: BTreeMap<String, Multi>,
    pub precision: BTreeMap<String, u32>,
}

/// Value a posting contributes to the transaction's balance, and the amount it moves.
/// Err(reason) = the posting is ill-formed on its own.
fn posting_values(p: &Post) -> Result<Option<(Multi, Multi)>, &'static str> {
    let Some(amount) = &p.amount else { return Ok(None) };
    let v = amount.value();
    let c = amount.commodity();
    if c.is_empty() {
        if !v.is_zero() {
            return Err("non-zero bare number as amount");
        }
        if p.cost.is_some() || p.lot.is_some() {
            return Err("price on a commodity-less zero");
        }
        return Ok(Some((Multi::new(), Multi::new())));
    }
    let mut moved = Multi::new();
    moved.insert(c.to_string(), v);
    let price = p.lot.as_ref().or(p.cost.as_ref());
    for pr in [p.lot.as_ref(), p.cost.as_ref()].into_iter().flatten() {
        let a = pr.amt();
        if a.commodity.is_empty() {
            return Err("price without commodity");
        }
        if a.num.is_zero() {
            return Err("zero price");
        }
        // a negative per-unit price is just a factor (rate x quantity); a negative *total* is taken
        // by magnitude with the sign of the quantity ("total with the sign of the quantity")
        if a.commodity == c {
            return Err("price in the amount's own commodity");
        }
    }
    let balancing = match price {
        None => moved.clone(),
        Some(Price::Rate(r)) => {
            let mut m = Multi::new();
            m.insert(r.commodity.clone(), v.mul(r.num.q()).ok_or("model overflow")?);
            m
        }
        Some(Price::Total(t)) => {
            if v.is_zero() && !matches!(amount, AmountExpr::Lit(_)) {
                // the sign of a zero computed by an expression is not something the statement fixes
                return Err("total price on a zero-valued expression");
            }
            // a literal zero quantity (`0 AAPL @@ 100 USD`) is valued at its total cost: +T
            let mut m = Multi::new();
            let t = t.num.q().abs();
            m.insert(t_commodity(p), if v.signum() < 0 { t.neg() } else { t });
            m
        }
    };
    Ok(Some((balancing, moved)))
}

fn t_commodity(p: &Post) -> String {
    p.lot.as_ref().or(p.cost.as_ref()).unwrap().amt().commodity.clone()
}

fn round_residual(res: &Multi, precision: &BTreeMap<String, u32>) -> Option<Multi> {
    let mut out = Multi::new();
    for (c, v) in res {
        let r = match precision.get(c) {
            Some(dp) => v.round_half_even(*dp)?,
            None => *v,
        };
        out.insert(c.clone(), r);
    }
    Some(out)
}

pub fn residual_shape(rounded: &Multi) -> &'static str {
    let nz: Vec<&Q> = rounded.values().filter(|v| !v.is_zero()).collect();
    let zeros = rounded.len() - nz.len();
    match (nz.len(), zeros) {
        (0, _) => "all-zero",
        (1, 0) => "one-commodity",
        (1, _) => "one-commodity-next-to-zero",
        (2, z) => {
            let opposite = nz[0].signum() != nz[1].signum();
            match (opposite, z) {
                (true, 0) => "two-opposite-sign",
                (true, _) => "two-opposite-sign-next-to-zero",
                (false, 0) => "two-same-sign",
                (false, _) => "two-same-sign-next-to-zero",
            }
        }
        _ => "three-or-more",
    }
}

/// Applies one transaction to `state` (only if accepted) and says what must happen.
pub fn apply_txn(state: &mut State, t: &Txn) -> Outcome {
    apply_txn_opts(state, t, false)
}

/// `deferred_inference`: alternative semantics in which the inferred amount reaches the
/// account only after all sibling postings (used to characterise a known deviation).
pub fn apply_txn_opts(state: &mut State, t: &Txn, deferred_inference: bool) -> Outcome {
    let unconstrained: Vec<usize> = t
        .posts
        .iter()
        .enumerate()
        .filter(|(_, p)| p.is_unconstrained())
        .map(|(i, _)| i)
        .collect();
    // ill-formed postings first: the statement does not cover them.
    let mut values: Vec<Option<(Multi, Multi)>> = Vec::new();
    for p in &t.posts {
        match posting_values(p) {
            Ok(v) => values.push(v),
            Err(reason) => return Outcome::Unspecified(reason),
        }
        if let Some(a) = &p.assertion {
            if a.commodity.is_empty() && !a.num.is_zero() {
                return Outcome::Unspecified("non-zero bare number as assertion");
            }
        }
    }
    if unconstrained.len() >= 2 {
        return Outcome::MustReject(Reject::TwoUnconstrained);
    }
    let inferred_idx = unconstrained.first().copied();
    // An assignment on the inferred posting's account after it would make the inferred value
    // depend on itself: outside what the statements define.
    if let Some(u) = inferred_idx {
        for p in t.posts.iter().skip(u + 1) {
            if p.account == t.posts[u].account && p.is_assignment() {
                return Outcome::Unspecified("assignment after an omitted amount on the same account");
            }
        }
    }
    let mut work = state.balances.clone();
    // pass 1: assignments need running balances, so walk in file order with the inferred
    // posting contributing nothing yet; then compute the inferred amount and re-walk.
    let mut inferred_amount = Multi::new();
    for pass in 0..2 {
        work = state.balances.clone();
        let mut residual = Multi::new();
        let mut amounts: Vec<Multi> = Vec::new();
        let mut assigned = Vec::new();
        let mut assertions = Vec::new();
        let mut failure: Option<Reject> = None;
        let mut balances_after: Vec<Multi> = Vec::new();
        let mut balances_before: Vec<Multi> = Vec::new();
        for (i, p) in t.posts.iter().enumerate() {
            let acct = work.entry(p.account.clone()).or_default();
            balances_before.push(pruned(acct));
            let moved: Multi = if Some(i) == inferred_idx {
                if deferred_inference {
                    Multi::new()
                } else {
                    inferred_amount.clone()
                }
            } else if p.is_assignment() {
                let x = p.assertion.as_ref().unwrap();
                assigned.push(i);
                if x.commodity.is_empty() {
                    // bare `= 0`: minus the whole single-commodity balance
                    let cur = pruned(acct);
                    if cur.len() > 1 {
                        if failure.is_none() {
                            failure = Some(Reject::ZeroAssignMulti { post: i });
                        }
                        Multi::new()
                    } else {
                        cur.iter().map(|(c, v)| (c.clone(), v.neg())).collect()
                    }
                } else {
                    let cur = acct.get(&x.commodity).copied().unwrap_or(Q::ZERO);
                    let Some(d) = x.num.q().sub(cur) else { return Outcome::Unspecified("model overflow") };
                    let mut m = Multi::new();
                    m.insert(x.commodity.clone(), d);
                    m
                }
            } else {
                values[i].as_ref().unwrap().1.clone()
            };
            for (c, v) in &moved {
                if multi_add(acct, c, *v).is_none() {
                    return Outcome::Unspecified("model overflow");
                }
            }
            prune(acct);
            let balancing = if Some(i) == inferred_idx || p.is_assignment() {
                moved.clone()
            } else {
                values[i].as_ref().unwrap().0.clone()
            };
            if Some(i) != inferred_idx {
                for (c, v) in &balancing {
                    if multi_add(&mut residual, c, *v).is_none() {
                        return Outcome::Unspecified("model overflow");
                    }
                }
            }
            // assertion on a posting that has an amount
            if p.amount.is_some() {
                if let Some(x) = &p.assertion {
                    assertions.push((i, p.account.clone()));
                    let ok = if x.commodity.is_empty() {
                        pruned(acct).is_empty()
                    } else {
                        acct.get(&x.commodity).copied().unwrap_or(Q::ZERO) == x.num.q()
                    };
                    if !ok && failure.is_none() {
                        failure = Some(Reject::AssertionFailed {
                            post: i,
                            account: p.account.clone(),
                            expected: (x.num.q(), x.commodity.clone()),
                            computed: pruned(acct),
                        });
                    }
                }
            }
            if Some(i) == inferred_idx {
                amounts.push(pruned(&inferred_amount));
            } else {
                amounts.push(pruned(&moved));
            }
            balances_after.push(pruned(acct));
        }
        if deferred_inference && pass == 1 {
            if let Some(u) = inferred_idx {
                let acct = work.entry(t.posts[u].account.clone()).or_default();
                for (c, v) in &inferred_amount {
                    if multi_add(acct, c, *v).is_none() {
                        return Outcome::Unspecified("model overflow");
                    }
                }
                prune(acct);
            }
        }
        if pass == 0 {
            if inferred_idx.is_some() {
                inferred_amount = residual.iter().map(|(c, v)| (c.clone(), v.neg())).collect();
                continue;
            }
        }
        // decide
        if let Some(f) = failure {
            // an assertion failure and an unbalanced residual can coexist: either error is a
            // correct rejection; report the first in posting order, i.e. the assertion.
            return Outcome::MustReject(f);
        }
        let accepted = |kind: &'static str| Accepted {
            amounts: amounts.clone(),
            inferred: inferred_idx,
            assigned: assigned.clone(),
            assertions: assertions.clone(),
            balances_after: balances_after.clone(),
            balances_before: balances_before.clone(),
            kind,
        };
        if inferred_idx.is_some() {
            state.balances = work;
            return Outcome::MustAccept(accepted("inferred"));
        }
        let Some(rounded) = round_residual(&residual, &state.precision) else {
            return Outcome::Unspecified("model overflow");
        };
        let shape = residual_shape(&rounded);
        return match shape {
            "all-zero" => {
                state.balances = work;
                Outcome::MustAccept(accepted(if residual.values().all(|v| v.is_zero()) {
                    "balanced"
                } else {
                    "balanced-after-rounding"
                }))
            }
            "two-opposite-sign" | "two-opposite-sign-next-to-zero" => {
                // whether the ledger continues from the accepted state is decided by the caller.
                state.balances = work;
                Outcome::May(accepted("implied-exchange"))
            }
            other => Outcome::MustReject(Reject::Unbalanced {
                residual: rounded,
                shape: other,
            }),
        };
    }
    unreachable!()
}

/// Walks the ledger in file order. Returns the outcome of every transaction up to and
/// including the first one that must be rejected (or is unspecified).
pub fn run(ledger: &Ledger) -> (Vec<(usize, Outcome)>, State) {
    let mut state = State::default();
    let mut out = Vec::new();
    for (i, e) in ledger.entries.iter().enumerate() {
        match e {
            Entry::Commodity { name, precision, .. } => {
                if let Some(p) = precision {
                    state.precision.insert(name.clone(), *p);
                }
            }
            Entry::Txn(t) => {
                let o = apply_txn(&mut state, t);
                let stop = matches!(o, Outcome::MustReject(_) | Outcome::Unspecified(_));
                out.push((i, o));
                if stop {
                    break;
                }
            }
            _ => {}
        }
    }
    (out, state)
}

pub fn multi_to_string(m: &Multi) -> String {
    if m.is_empty() {
        return "0".into();
    }
    m.iter()
        .map(|(c, v)| format!("{} {}", v.to_string_exact(), c))
        .collect::<Vec<_>>()
        .join(" + ")
}

/// Is this written amount usable by `AmountExpr`-level helpers (kept here to avoid a cycle).
pub fn written_amount(p: &Post) -> Option<(&str, Q)> {
    match &p.amount {
        Some(AmountExpr::Lit(a)) => Some((a.commodity.as_str(), a.num.q())),
        Some(AmountExpr::Expr { value, commodity, .. }) => Some((commodity.as_str(), *value)),
        None => None,
    }
}
