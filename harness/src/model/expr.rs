//! Reference evaluator for value expressions, written from the C08 statement and the
//! grammar in doc/syntax.md: `*` `/` bind tighter than `+` `-`, equal precedence folds to the
//! left, unary minus negates, parentheses group, same commodities combine, different ones
//! are kept apart. Three-valued: a value, must-error, or unspecified.

use std::collections::BTreeMap;

use crate::gen::ledger::Amt;
use crate::model::q::Q;
use crate::rng::Rng;

#[derive(Clone, Copy, Debug, PartialEq, Eq, PartialOrd, Ord)]
pub enum Op {
    Add,
    Sub,
    Mul,
    Div,
}

impl Op {
    pub fn ch(self) -> char {
        match self {
            Op::Add => '+',
            Op::Sub => '-',
            Op::Mul => '*',
            Op::Div => '/',
        }
    }
    pub const ALL: [Op; 4] = [Op::Add, Op::Sub, Op::Mul, Op::Div];
}

/// Surface syntax, exactly the shape of the documented grammar.
#[derive(Clone, Debug, PartialEq)]
pub enum Value {
    Leaf(Amt),
    Paren(Box<AddExpr>),
}

#[derive(Clone, Debug, PartialEq)]
pub struct Unary {
    pub neg: bool,
    pub value: Value,
}

#[derive(Clone, Debug, PartialEq)]
pub struct MulExpr {
    pub first: Unary,
    /// only Mul / Div
    pub rest: Vec<(Op, Unary)>,
}

#[derive(Clone, Debug, PartialEq)]
pub struct AddExpr {
    pub first: MulExpr,
    /// only Add / Sub
    pub rest: Vec<(Op, MulExpr)>,
}

/// How operators are spaced when rendered: 0 = ` op `, 1 = `op`, 2 = ` op`, 3 = `op `.
pub fn render_value(v: &Value, spacing: &mut dyn FnMut() -> u8) -> String {
    match v {
        Value::Leaf(a) => a.text(),
        Value::Paren(e) => format!("({})", render_add(e, spacing)),
    }
}

fn op_text(op: Op, style: u8) -> String {
    match style {
        0 => format!(" {} ", op.ch()),
        1 => format!("{}", op.ch()),
        2 => format!(" {}", op.ch()),
        _ => format!("{} ", op.ch()),
    }
}

fn render_unary(u: &Unary, spacing: &mut dyn FnMut() -> u8) -> String {
    format!("{}{}", if u.neg { "-" } else { "" }, render_value(&u.value, spacing))
}

fn render_mul(m: &MulExpr, spacing: &mut dyn FnMut() -> u8) -> String {
    let mut s = render_unary(&m.first, spacing);
    for (op, u) in &m.rest {
        s.push_str(&op_text(*op, spacing()));
        s.push_str(&render_unary(u, spacing));
    }
    s
}

pub fn render_add(e: &AddExpr, spacing: &mut dyn FnMut() -> u8) -> String {
    let mut s = render_mul(&e.first, spacing);
    for (op, m) in &e.rest {
        s.push_str(&op_text(*op, spacing()));
        s.push_str(&render_mul(m, spacing));
    }
    s
}

#[derive(Clone, Debug, PartialEq)]
pub enum V {
    Num(Q),
    /// zero-valued entries are kept, as in `1 USD - 1 USD`
    Com(BTreeMap<String, Q>),
}

#[derive(Clone, Debug, PartialEq)]
pub enum Verdict {
    Value(V),
    MustError(&'static str),
    Unspecified(&'static str),
    /// the model's own arithmetic overflowed: the case is skipped
    ModelOverflow,
}

#[derive(Default, Clone, Debug)]
pub struct Trace {
    /// some intermediate result is not exactly representable as a 96-bit / 28-place decimal
    pub inexact: bool,
    pub ops: Vec<Op>,
    pub had_neg: bool,
    pub leaves: usize,
    pub depth: usize,
    /// bound on |computed - exact| for an evaluator that keeps every intermediate result as a
    /// 96-bit decimal with at most 28 decimals (each inexact step may be off by half a unit of the
    /// 28th decimal or 1e-28 of the value; later factors magnify what earlier steps lost)
    pub err: f64,
}

fn magnitude(v: &V) -> f64 {
    let f = |q: &Q| (q.n as f64 / q.d as f64).abs();
    match v {
        V::Num(q) => f(q),
        V::Com(m) => m.values().map(f).fold(0.0, f64::max),
    }
}

fn smallest_nonzero(v: &V) -> f64 {
    let f = |q: &Q| (q.n as f64 / q.d as f64).abs();
    match v {
        V::Num(q) => f(q),
        V::Com(m) => m.values().filter(|q| !q.is_zero()).map(f).fold(f64::INFINITY, f64::min),
    }
}

fn all_representable(v: &V) -> bool {
    match v {
        V::Num(q) => representable(*q),
        V::Com(m) => m.values().all(|q| representable(*q)),
    }
}

/// Error bound of `l op r` given the bounds of the operands and the exact operands / result.
fn step_err(op: Op, l: &V, el: f64, r: &V, er: f64, out: &V) -> f64 {
    let (a, b) = (magnitude(l), magnitude(r));
    let propagated = match op {
        Op::Add | Op::Sub => el + er,
        Op::Mul => a * er + b * el + el * er,
        Op::Div => {
            let d = smallest_nonzero(r);
            let x = magnitude(out);
            if d - er > 0.0 { (el + x * er) / (d - er) } else { f64::INFINITY }
        }
    };
    let rounding = if all_representable(out) { 0.0 } else { 5e-29f64.max(magnitude(out) * 1e-28) };
    propagated + rounding
}

fn representable(q: Q) -> bool {
    match q.as_decimal_parts(28) {
        Some((m, _)) => m.unsigned_abs() < (1u128 << 96),
        None => false,
    }
}

fn note(v: &V, tr: &mut Trace) {
    match v {
        V::Num(q) => {
            if !representable(*q) {
                tr.inexact = true;
            }
        }
        V::Com(m) => {
            for q in m.values() {
                if !representable(*q) {
                    tr.inexact = true;
                }
            }
        }
    }
}

fn is_zero(v: &V) -> bool {
    match v {
        V::Num(q) => q.is_zero(),
        V::Com(m) => m.values().all(|q| q.is_zero()),
    }
}

fn negate(v: V) -> V {
    match v {
        V::Num(q) => V::Num(q.neg()),
        V::Com(m) => V::Com(m.into_iter().map(|(c, q)| (c, q.neg())).collect()),
    }
}

fn apply(op: Op, l: V, r: V) -> Verdict {
    macro_rules! ov {
        ($e:expr) => {
            match $e {
                Some(x) => x,
                None => return Verdict::ModelOverflow,
            }
        };
    }
    match op {
        Op::Add | Op::Sub => match (l, r) {
            (V::Num(a), V::Num(b)) => Verdict::Value(V::Num(ov!(if op == Op::Add { a.add(b) } else { a.sub(b) }))),
            (V::Com(mut a), V::Com(b)) => {
                for (c, q) in b {
                    let e = a.entry(c).or_insert(Q::ZERO);
                    *e = ov!(if op == Op::Add { e.add(q) } else { e.sub(q) });
                }
                Verdict::Value(V::Com(a))
            }
            _ => Verdict::MustError("number+-commodity"),
        },
        Op::Mul => match (l, r) {
            (V::Num(a), V::Num(b)) => Verdict::Value(V::Num(ov!(a.mul(b)))),
            (V::Com(a), V::Num(b)) | (V::Num(b), V::Com(a)) => {
                let mut out = BTreeMap::new();
                for (c, q) in a {
                    out.insert(c, ov!(q.mul(b)));
                }
                Verdict::Value(V::Com(out))
            }
            (V::Com(_), V::Com(_)) => Verdict::MustError("commodity*commodity"),
        },
        Op::Div => {
            match (&l, &r) {
                (_, V::Num(b)) if b.is_zero() => return Verdict::MustError("divide-by-zero"),
                (_, V::Com(_)) if is_zero(&r) => return Verdict::Unspecified("divide-by-zero-commodity-amount"),
                // whatever `number / amount` means, it takes one amount: a divisor holding two or
                // more non-zero commodities is "a multi-commodity sum where a single amount is required"
                (V::Num(_), V::Com(m)) if m.values().filter(|q| !q.is_zero()).count() >= 2 => return Verdict::MustError("number/multi-commodity-sum"),
                (V::Num(_), V::Com(_)) => return Verdict::Unspecified("number/commodity"),
                (V::Com(_), V::Com(_)) => return Verdict::Unspecified("commodity/commodity"),
                _ => {}
            }
            match (l, r) {
                (V::Num(a), V::Num(b)) => Verdict::Value(V::Num(ov!(a.div(b)))),
                (V::Com(a), V::Num(b)) => {
                    let mut out = BTreeMap::new();
                    for (c, q) in a {
                        out.insert(c, ov!(q.div(b)));
                    }
                    Verdict::Value(V::Com(out))
                }
                _ => unreachable!(),
            }
        }
    }
}

fn combine(op: Op, l: (Verdict, f64), r: (Verdict, f64), tr: &mut Trace) -> (Verdict, f64) {
    tr.ops.push(op);
    match (l, r) {
        ((Verdict::ModelOverflow, _), _) | (_, (Verdict::ModelOverflow, _)) => (Verdict::ModelOverflow, 0.0),
        ((Verdict::MustError(e), _), _) | (_, (Verdict::MustError(e), _)) => (Verdict::MustError(e), 0.0),
        ((Verdict::Unspecified(e), _), _) | (_, (Verdict::Unspecified(e), _)) => (Verdict::Unspecified(e), 0.0),
        ((Verdict::Value(a), ea), (Verdict::Value(b), eb)) => {
            let out = apply(op, a.clone(), b.clone());
            let mut err = 0.0;
            if let Verdict::Value(v) = &out {
                note(v, tr);
                err = step_err(op, &a, ea, &b, eb, v);
            }
            (out, err)
        }
    }
}

fn eval_value(v: &Value, tr: &mut Trace, depth: usize) -> (Verdict, f64) {
    tr.depth = tr.depth.max(depth);
    match v {
        Value::Leaf(a) => {
            tr.leaves += 1;
            let q = a.num.q();
            if a.commodity.is_empty() {
                (Verdict::Value(V::Num(q)), 0.0)
            } else {
                let mut m = BTreeMap::new();
                m.insert(a.commodity.clone(), q);
                (Verdict::Value(V::Com(m)), 0.0)
            }
        }
        Value::Paren(e) => eval_add_err(e, tr, depth + 1),
    }
}

fn eval_unary(u: &Unary, tr: &mut Trace, depth: usize) -> (Verdict, f64) {
    let (v, e) = eval_value(&u.value, tr, depth);
    if !u.neg {
        return (v, e);
    }
    tr.had_neg = true;
    match v {
        Verdict::Value(x) => (Verdict::Value(negate(x)), e),
        other => (other, e),
    }
}

fn eval_mul(m: &MulExpr, tr: &mut Trace, depth: usize) -> (Verdict, f64) {
    let mut acc = eval_unary(&m.first, tr, depth);
    for (op, u) in &m.rest {
        let r = eval_unary(u, tr, depth);
        acc = combine(*op, acc, r, tr);
    }
    acc
}

fn eval_add_err(e: &AddExpr, tr: &mut Trace, depth: usize) -> (Verdict, f64) {
    let mut acc = eval_mul(&e.first, tr, depth);
    for (op, m) in &e.rest {
        let r = eval_mul(m, tr, depth);
        acc = combine(*op, acc, r, tr);
    }
    acc
}

pub fn eval_add(e: &AddExpr, tr: &mut Trace, depth: usize) -> Verdict {
    let (v, err) = eval_add_err(e, tr, depth);
    tr.err = err;
    v
}

pub fn eval(v: &Value) -> (Verdict, Trace) {
    let mut tr = Trace::default();
    let (out, err) = eval_value(v, &mut tr, 0);
    tr.err = err;
    (out, tr)
}

// ---------------------------------------------------------------------------------------
// enumeration of small trees and random larger ones

pub const LEAVES: [(i128, u32, &str); 6] = [(0, 0, ""), (2, 0, ""), (5, 1, ""), (0, 0, "USD"), (3, 0, "USD"), (15, 1, "EUR")];

fn leaf(k: usize) -> Unary {
    let (m, s, c) = LEAVES[k % 6];
    Unary {
        neg: k >= 6,
        value: Value::Leaf(Amt::new(m, s, c)),
    }
}

fn single(u: Unary) -> MulExpr {
    MulExpr { first: u, rest: vec![] }
}

/// a o b with the grammar's precedence: builds the AddExpr the parser would build.
fn flat(us: Vec<Unary>, ops: Vec<Op>) -> AddExpr {
    let mut terms: Vec<MulExpr> = Vec::new();
    let mut add_ops: Vec<Op> = Vec::new();
    let mut it = us.into_iter();
    let mut cur = single(it.next().unwrap());
    for (op, u) in ops.into_iter().zip(it) {
        match op {
            Op::Mul | Op::Div => cur.rest.push((op, u)),
            Op::Add | Op::Sub => {
                terms.push(cur);
                add_ops.push(op);
                cur = single(u);
            }
        }
    }
    terms.push(cur);
    let mut it = terms.into_iter();
    let first = it.next().unwrap();
    AddExpr {
        first,
        rest: add_ops.into_iter().zip(it).collect(),
    }
}

fn paren(e: AddExpr, neg: bool) -> Unary {
    Unary {
        neg,
        value: Value::Paren(Box::new(e)),
    }
}

pub const N1: u64 = 12;
pub const N2: u64 = 12 * 12 * 4;
pub const N3: u64 = 12 * 12 * 12 * 16 * 5;
pub const N_EXHAUSTIVE: u64 = N1 + N2 + N3;

/// The idx-th small expression (idx < N_EXHAUSTIVE): 1, 2 or 3 leaves out of 6 literals with
/// optional unary minus, all operator pairs, shapes `a o b o c`, `(a o b) o c`, `-(a o b) o c`,
/// `a o (b o c)`, `a o -(b o c)`. Always returned wrapped in outer parentheses except single leaves.
pub fn small_tree(mut idx: u64) -> Value {
    if idx < N1 {
        let u = leaf(idx as usize);
        if !u.neg {
            return u.value;
        }
        return Value::Paren(Box::new(AddExpr { first: single(u), rest: vec![] }));
    }
    idx -= N1;
    if idx < N2 {
        let a = (idx % 12) as usize;
        let b = ((idx / 12) % 12) as usize;
        let o = Op::ALL[(idx / 144) as usize];
        return Value::Paren(Box::new(flat(vec![leaf(a), leaf(b)], vec![o])));
    }
    idx -= N2;
    let a = (idx % 12) as usize;
    let b = ((idx / 12) % 12) as usize;
    let c = ((idx / 144) % 12) as usize;
    let o1 = Op::ALL[((idx / 1728) % 4) as usize];
    let o2 = Op::ALL[((idx / 6912) % 4) as usize];
    let shape = (idx / 27648) % 5;
    let e = match shape {
        0 => flat(vec![leaf(a), leaf(b), leaf(c)], vec![o1, o2]),
        1 | 2 => flat(vec![paren(flat(vec![leaf(a), leaf(b)], vec![o1]), shape == 2), leaf(c)], vec![o2]),
        _ => flat(vec![leaf(a), paren(flat(vec![leaf(b), leaf(c)], vec![o2]), shape == 4)], vec![o1]),
    };
    Value::Paren(Box::new(e))
}

const RAND_VALUES: &[(i128, u32)] = &[(0, 0), (1, 0), (2, 0), (3, 0), (4, 0), (5, 0), (8, 0), (10, 0), (25, 1), (5, 1), (125, 2), (1234, 2), (7, 0), (100, 0), (1, 3), (999, 0), (12, 0)];

fn random_unary(rng: &mut Rng, depth: usize, budget: &mut usize) -> Unary {
    let neg = rng.chance(1, 5);
    if depth > 0 && *budget > 1 && rng.chance(2, 5) {
        let e = random_add(rng, depth - 1, budget);
        return Unary {
            neg,
            value: Value::Paren(Box::new(e)),
        };
    }
    *budget = budget.saturating_sub(1);
    let (m, s) = *rng.pick(RAND_VALUES);
    let c = match rng.below(10) {
        0..=3 => "",
        4..=7 => "USD",
        8 => "EUR",
        _ => "JPY",
    };
    let mut a = Amt::new(m, s, c);
    if rng.chance(1, 12) {
        // a literal written with its own minus sign; under a unary minus this is `--5 USD`,
        // i.e. the negation of the literal -5 (C07 gives literals an optional minus)
        a.num.mant = -a.num.mant;
    }
    Unary { neg, value: Value::Leaf(a) }
}

fn random_mul(rng: &mut Rng, depth: usize, budget: &mut usize) -> MulExpr {
    let first = random_unary(rng, depth, budget);
    let mut rest = Vec::new();
    while *budget > 0 && rng.chance(2, 5) {
        let op = if rng.chance(1, 2) { Op::Mul } else { Op::Div };
        rest.push((op, random_unary(rng, depth, budget)));
    }
    MulExpr { first, rest }
}

pub fn random_add(rng: &mut Rng, depth: usize, budget: &mut usize) -> AddExpr {
    let first = random_mul(rng, depth, budget);
    let mut rest = Vec::new();
    while *budget > 0 && rng.chance(1, 2) {
        let op = if rng.chance(1, 2) { Op::Add } else { Op::Sub };
        rest.push((op, random_mul(rng, depth, budget)));
    }
    AddExpr { first, rest }
}

pub fn random_tree(rng: &mut Rng) -> Value {
    let mut budget = 2 + rng.usize(7);
    let depth = 1 + rng.usize(4);
    Value::Paren(Box::new(random_add(rng, depth, &mut budget)))
}

#[cfg(test)]
mod tests {
    use super::*;

    fn num(v: &Verdict) -> Q {
        match v {
            Verdict::Value(V::Num(q)) => *q,
            other => panic!("{:?}", other),
        }
    }
    fn lit(n: i128) -> Unary {
        Unary { neg: false, value: Value::Leaf(Amt::new(n, 0, "")) }
    }

    #[test]
    fn precedence_and_assoc() {
        // 8 / 4 / 2 = 1 ; 1 - 2 - 3 = -4 ; 1 + 2 * 3 = 7
        let e = flat(vec![lit(8), lit(4), lit(2)], vec![Op::Div, Op::Div]);
        assert_eq!(num(&eval_add(&e, &mut Trace::default(), 0)), Q::int(1));
        let e = flat(vec![lit(1), lit(2), lit(3)], vec![Op::Sub, Op::Sub]);
        assert_eq!(num(&eval_add(&e, &mut Trace::default(), 0)), Q::int(-4));
        let e = flat(vec![lit(1), lit(2), lit(3)], vec![Op::Add, Op::Mul]);
        assert_eq!(num(&eval_add(&e, &mut Trace::default(), 0)), Q::int(7));
        let mut sp = || 0u8;
        assert_eq!(render_add(&e, &mut sp), "1 + 2 * 3");
    }
}
