//! Reference recogniser for numeric literals, written from the C07 statement and
//! doc/syntax.md (`comma-decimal`), independent of the implementation.

/// Exact value of a well-formed literal.
#[derive(Debug, Clone, PartialEq, Eq)]
pub struct Lit {
    pub negative: bool,
    /// All digits (integer and fraction), leading zeros kept.
    pub digits: String,
    /// Number of digits after the decimal point.
    pub scale: u32,
    /// The integer part was written with comma grouping.
    pub grouped: bool,
    /// Number of digits in the integer part as written.
    pub int_digits: usize,
}

#[derive(Debug, Clone, PartialEq, Eq)]
pub enum Verdict {
    /// Well-formed and representable: must be accepted with exactly this value.
    Accept { lit: Lit, mantissa: i128 },
    /// Must be rejected.
    Reject(&'static str),
    /// Empty integer part (`.5`): statement and doc/syntax.md disagree; either outcome is
    /// fine, a produced value must still be exact.
    Unspecified { lit: Lit, mantissa: Option<i128> },
}

/// 2^96 - 1: largest mantissa rust_decimal's 96-bit representation can hold.
pub const MAX_MANTISSA: i128 = 79_228_162_514_264_337_593_543_950_335;
pub const MAX_SCALE: u32 = 28;

fn mantissa_of(digits: &str) -> Option<i128> {
    let mut m: i128 = 0;
    for b in digits.bytes() {
        m = m.checked_mul(10)?.checked_add((b - b'0') as i128)?;
        if m > MAX_MANTISSA {
            return None;
        }
    }
    Some(m)
}

pub fn classify(s: &str) -> Verdict {
    let b = s.as_bytes();
    let mut i = 0;
    let negative = if !b.is_empty() && b[0] == b'-' {
        i = 1;
        true
    } else {
        false
    };
    // integer part: up to '.' or end
    let rest = &s[i..];
    let (int_part, frac_part) = match rest.find('.') {
        Some(p) => (&rest[..p], Some(&rest[p + 1..])),
        None => (rest, None),
    };
    if let Some(f) = frac_part {
        if !f.bytes().all(|c| c.is_ascii_digit()) {
            return Verdict::Reject("fraction contains a non-digit (second dot, comma or minus)");
        }
    }
    if !int_part.bytes().all(|c| c.is_ascii_digit() || c == b',') {
        return Verdict::Reject("integer part contains a character other than digit or comma");
    }
    let grouped = int_part.contains(',');
    let mut digits = String::new();
    if grouped {
        let groups: Vec<&str> = int_part.split(',').collect();
        let first = groups[0];
        if first.is_empty() || first.len() > 3 {
            return Verdict::Reject("leading group must have one to three digits");
        }
        for g in &groups[1..] {
            if g.len() != 3 {
                return Verdict::Reject("comma group is not exactly three digits");
            }
        }
        for g in &groups {
            digits.push_str(g);
        }
    } else {
        digits.push_str(int_part);
    }
    let int_digits = digits.len();
    let scale = frac_part.map(|f| f.len() as u32).unwrap_or(0);
    if let Some(f) = frac_part {
        digits.push_str(f);
    }
    if digits.is_empty() {
        return Verdict::Reject("no digit at all");
    }
    let lit = Lit {
        negative,
        digits: digits.clone(),
        scale,
        grouped,
        int_digits,
    };
    let representable = if scale > MAX_SCALE {
        None
    } else {
        mantissa_of(&digits)
    };
    if int_digits == 0 {
        return Verdict::Unspecified {
            lit,
            mantissa: representable.map(|m| if negative { -m } else { m }),
        };
    }
    match representable {
        Some(m) => Verdict::Accept {
            lit,
            mantissa: if negative { -m } else { m },
        },
        None => Verdict::Reject("too large or too precise to represent"),
    }
}

/// Does the integral part have thousands to group (>= 4 significant integer digits)?
pub fn has_thousands(lit: &Lit) -> bool {
    let int = &lit.digits[..lit.int_digits];
    int.trim_start_matches('0').len() >= 4
}

#[cfg(test)]
mod tests {
    use super::*;
    #[test]
    fn basics() {
        assert!(matches!(classify("1"), Verdict::Accept { mantissa: 1, .. }));
        assert!(matches!(classify("-1,234.50"), Verdict::Accept { mantissa: -123450, .. }));
        assert!(matches!(classify("1."), Verdict::Accept { mantissa: 1, .. }));
        assert!(matches!(classify("-"), Verdict::Reject(_)));
        assert!(matches!(classify("."), Verdict::Reject(_)));
        assert!(matches!(classify("1.2.3"), Verdict::Reject(_)));
        assert!(matches!(classify("12,50"), Verdict::Reject(_)));
        assert!(matches!(classify("1,234,"), Verdict::Reject(_)));
        assert!(matches!(classify("1234,567"), Verdict::Reject(_)));
        assert!(matches!(classify(".5"), Verdict::Unspecified { .. }));
        assert!(matches!(classify("79228162514264337593543950335"), Verdict::Accept { .. }));
        assert!(matches!(classify("79228162514264337593543950336"), Verdict::Reject(_)));
    }
}
