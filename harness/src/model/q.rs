//! Exact rationals over i128 with checked arithmetic. A `None` from any operation means the
//! *model* overflowed; callers turn that into "skipped", never into a verdict.

use rust_decimal::Decimal;
use std::cmp::Ordering;

#[derive(Clone, Copy, Debug, PartialEq, Eq, Hash)]
pub struct Q {
    pub n: i128,
    pub d: i128,
}

fn gcd(mut a: i128, mut b: i128) -> i128 {
    a = a.abs();
    b = b.abs();
    while b != 0 {
        let t = a % b;
        a = b;
        b = t;
    }
    a
}

impl Q {
    pub const ZERO: Q = Q { n: 0, d: 1 };
    pub const ONE: Q = Q { n: 1, d: 1 };

    pub fn new(n: i128, d: i128) -> Option<Q> {
        if d == 0 {
            return None;
        }
        let g = gcd(n, d);
        let (mut n, mut d) = if g == 0 { (0, 1) } else { (n / g, d / g) };
        if d < 0 {
            n = n.checked_neg()?;
            d = d.checked_neg()?;
        }
        Some(Q { n, d })
    }

    pub fn int(n: i128) -> Q {
        Q { n, d: 1 }
    }

    /// mantissa * 10^-scale
    pub fn from_parts(mantissa: i128, scale: u32) -> Option<Q> {
        let d = 10i128.checked_pow(scale)?;
        Q::new(mantissa, d)
    }

    pub fn from_decimal(v: Decimal) -> Q {
        Q::from_parts(v.mantissa(), v.scale()).expect("decimal always fits")
    }

    pub fn is_zero(self) -> bool {
        self.n == 0
    }

    pub fn signum(self) -> i32 {
        self.n.signum() as i32
    }

    pub fn neg(self) -> Q {
        Q { n: -self.n, d: self.d }
    }

    pub fn abs(self) -> Q {
        Q { n: self.n.abs(), d: self.d }
    }

    pub fn add(self, o: Q) -> Option<Q> {
        let g = gcd(self.d, o.d);
        let l = self.d / g;
        let n = self.n.checked_mul(o.d / g)?.checked_add(o.n.checked_mul(l)?)?;
        let d = l.checked_mul(o.d)?;
        Q::new(n, d)
    }

    pub fn sub(self, o: Q) -> Option<Q> {
        self.add(o.neg())
    }

    pub fn mul(self, o: Q) -> Option<Q> {
        let g1 = gcd(self.n, o.d);
        let g2 = gcd(o.n, self.d);
        let (g1, g2) = (if g1 == 0 { 1 } else { g1 }, if g2 == 0 { 1 } else { g2 });
        let n = (self.n / g1).checked_mul(o.n / g2)?;
        let d = (self.d / g2).checked_mul(o.d / g1)?;
        Q::new(n, d)
    }

    pub fn div(self, o: Q) -> Option<Q> {
        if o.n == 0 {
            return None;
        }
        self.mul(Q::new(o.d, o.n)?)
    }

    pub fn cmp(self, o: Q) -> Option<Ordering> {
        Some(self.n.checked_mul(o.d)?.cmp(&o.n.checked_mul(self.d)?))
    }

    /// Round to `dp` decimal places, ties to even (banker's rounding).
    pub fn round_half_even(self, dp: u32) -> Option<Q> {
        let scale = 10i128.checked_pow(dp)?;
        let scaled_n = self.n.checked_mul(scale)?;
        // floor division
        let mut q = scaled_n.div_euclid(self.d);
        let r = scaled_n.rem_euclid(self.d);
        let twice = r.checked_mul(2)?;
        match twice.cmp(&self.d) {
            Ordering::Greater => q += 1,
            Ordering::Equal => {
                if q % 2 != 0 {
                    q += 1;
                }
            }
            Ordering::Less => {}
        }
        Q::new(q, scale)
    }

    /// |self - other| <= rel * max(|self|, |other|) + abs_tol, with tolerances as rationals.
    pub fn approx_eq(self, other: Q, rel: Q, abs_tol: Q) -> Option<bool> {
        let diff = self.sub(other)?.abs();
        let m = if self.abs().cmp(other.abs())? == Ordering::Greater { self.abs() } else { other.abs() };
        let bound = m.mul(rel)?.add(abs_tol)?;
        Some(diff.cmp(bound)? != Ordering::Greater)
    }

    /// Has a finite decimal expansion with at most `max_scale` places? Returns it.
    pub fn as_decimal_parts(self, max_scale: u32) -> Option<(i128, u32)> {
        let mut d = self.d;
        let mut twos = 0u32;
        let mut fives = 0u32;
        while d % 2 == 0 {
            d /= 2;
            twos += 1;
        }
        while d % 5 == 0 {
            d /= 5;
            fives += 1;
        }
        if d != 1 {
            return None;
        }
        let scale = twos.max(fives);
        if scale > max_scale {
            return None;
        }
        let mult = 10i128.checked_pow(scale)? / self.d;
        Some((self.n.checked_mul(mult)?, scale))
    }

    pub fn to_string_exact(self) -> String {
        match self.as_decimal_parts(30) {
            Some((m, 0)) => format!("{}", m),
            Some((m, s)) => {
                let neg = m < 0;
                let digits = format!("{:0>width$}", m.unsigned_abs(), width = s as usize + 1);
                let (i, f) = digits.split_at(digits.len() - s as usize);
                format!("{}{}.{}", if neg { "-" } else { "" }, i, f)
            }
            None => format!("{}/{}", self.n, self.d),
        }
    }
}

#[cfg(test)]
mod tests {
    use super::*;
    #[test]
    fn rounding() {
        let h = Q::new(5, 1000).unwrap(); // 0.005
        assert_eq!(h.round_half_even(2).unwrap(), Q::ZERO);
        let h = Q::new(15, 1000).unwrap(); // 0.015 -> 0.02
        assert_eq!(h.round_half_even(2).unwrap(), Q::new(2, 100).unwrap());
        let h = Q::new(25, 1000).unwrap(); // 0.025 -> 0.02
        assert_eq!(h.round_half_even(2).unwrap(), Q::new(2, 100).unwrap());
        let h = Q::new(-25, 1000).unwrap();
        assert_eq!(h.round_half_even(2).unwrap(), Q::new(-2, 100).unwrap());
        let h = Q::new(-15, 1000).unwrap();
        assert_eq!(h.round_half_even(2).unwrap(), Q::new(-2, 100).unwrap());
        let h = Q::new(-5, 1000).unwrap();
        assert_eq!(h.round_half_even(2).unwrap(), Q::ZERO);
        assert_eq!(Q::new(1, 3).unwrap().round_half_even(0).unwrap(), Q::ZERO);
        assert_eq!(Q::new(2, 3).unwrap().round_half_even(0).unwrap(), Q::ONE);
    }
}
