//! Reference models: written from the property statements and doc/syntax.md.
pub mod num;
pub mod book;
pub mod expr;
pub mod price;
pub mod q;
