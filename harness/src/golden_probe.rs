//! Tiny subject for C20: runs the real okane-golden helper once.
//! usage: golden_probe <golden path> <file holding `got`> [unset | set:<value>]
fn main() {
    let args: Vec<String> = std::env::args().collect();
    if args.len() < 3 {
        std::process::exit(2);
    }
    let got = std::fs::read(&args[2]).expect("cannot read got file");
    let got = String::from_utf8(got).expect("got is not UTF-8");
    let golden = match okane_golden::Golden::new(std::path::PathBuf::from(&args[1])) {
        Ok(g) => g,
        Err(e) => {
            eprintln!("NEW-ERROR: {}", e);
            std::process::exit(3);
        }
    };
    // optional: change UPDATE_GOLDEN between Golden::new and Golden::assert
    if let Some(sw) = args.get(3) {
        if sw == "unset" {
            std::env::remove_var("UPDATE_GOLDEN");
        } else if let Some(v) = sw.strip_prefix("set:") {
            std::env::set_var("UPDATE_GOLDEN", v);
        }
    }
    golden.assert(&got);
    println!("ASSERT-OK");
}
