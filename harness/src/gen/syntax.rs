//! Grammar-driven generator written from doc/syntax.md, production by production.
//! It builds the *intended* syntax tree (okane's public syntax types, via their public
//! constructors) and, separately, renders text with its own printer and whitespace knobs —
//! okane's Display is never used to produce input.
//!
//! Every optional, risk-bearing choice is a *feature*. The random decision is always drawn
//! (so the stream does not shift) and then masked, which lets a failing case be re-generated
//! with features switched off one at a time: the surviving set is the violation's class.

use std::borrow::Cow;

use chrono::NaiveDate;
use okane_core::syntax::{
    self,
    expr::{Amount, BinaryOp, BinaryOpExpr, Expr, UnaryOp, UnaryOpExpr, ValueExpr},
    plain::{LedgerEntry, Lot, Posting, PostingAmount, Transaction},
    pretty_decimal::PrettyDecimal,
    AccountDeclaration, AccountDetail, ApplyTag, ClearState, CommodityDeclaration, CommodityDetail, Exchange,
    IncludeFile, Metadata, MetadataValue, TopLevelComment,
};
use rust_decimal::Decimal;

use crate::rng::Rng;

#[derive(Clone, Copy, PartialEq, Eq, Debug)]
#[repr(u32)]
pub enum Feat {
    EofFinalLine = 0,
    Crlf,
    WsOnlySeparator,
    NoBlankSeparator,
    TabSeparator,
    WideSpacing,
    HyphenDate,
    UnpaddedDate,
    EffectiveDate,
    ClearState,
    Code,
    CodeInnerSpace,
    HeaderInlineMeta,
    TxnMeta,
    PostingMeta,
    PostingInlineMeta,
    MetaTags,
    MetaKv,
    MetaKvExpr,
    LotPrice,
    LotDate,
    LotNote,
    Cost,
    Assertion,
    AssertionOnly,
    ParenExpr,
    OpNoSpace,
    UnaryMinus,
    NestedParen,
    BareNumber,
    Grouped,
    SmallGrouped,
    ManyDecimals,
    Negative,
    UnicodeAccount,
    LongAccount,
    AccountPunct,
    UnicodeCommodity,
    UnicodePayee,
    EmptyPayee,
    NoPostings,
    CommentPrefix,
    MultiLineComment,
    SubDirectiveComment,
    SubDirectiveNote,
    SubDirectiveAlias,
    CommodityFormat,
    ApplyTagValue,
    DirectiveTrailingSpace,
    IncludeEntry,
    AttachedCommodity,
    PostingClearState,
    TrailingWsEof,
}

pub const ALL_FEATS: &[Feat] = &[
    Feat::EofFinalLine,
    Feat::Crlf,
    Feat::WsOnlySeparator,
    Feat::NoBlankSeparator,
    Feat::TabSeparator,
    Feat::WideSpacing,
    Feat::HyphenDate,
    Feat::UnpaddedDate,
    Feat::EffectiveDate,
    Feat::ClearState,
    Feat::Code,
    Feat::CodeInnerSpace,
    Feat::HeaderInlineMeta,
    Feat::TxnMeta,
    Feat::PostingMeta,
    Feat::PostingInlineMeta,
    Feat::MetaTags,
    Feat::MetaKv,
    Feat::MetaKvExpr,
    Feat::LotPrice,
    Feat::LotDate,
    Feat::LotNote,
    Feat::Cost,
    Feat::Assertion,
    Feat::AssertionOnly,
    Feat::ParenExpr,
    Feat::OpNoSpace,
    Feat::UnaryMinus,
    Feat::NestedParen,
    Feat::BareNumber,
    Feat::Grouped,
    Feat::SmallGrouped,
    Feat::ManyDecimals,
    Feat::Negative,
    Feat::UnicodeAccount,
    Feat::LongAccount,
    Feat::AccountPunct,
    Feat::UnicodeCommodity,
    Feat::UnicodePayee,
    Feat::EmptyPayee,
    Feat::NoPostings,
    Feat::CommentPrefix,
    Feat::MultiLineComment,
    Feat::SubDirectiveComment,
    Feat::SubDirectiveNote,
    Feat::SubDirectiveAlias,
    Feat::CommodityFormat,
    Feat::ApplyTagValue,
    Feat::DirectiveTrailingSpace,
    Feat::IncludeEntry,
    Feat::AttachedCommodity,
    Feat::PostingClearState,
    Feat::TrailingWsEof,
];

pub fn feat_name(f: Feat) -> &'static str {
    match f {
        Feat::EofFinalLine => "eof-final-line",
        Feat::Crlf => "crlf",
        Feat::WsOnlySeparator => "ws-only-separator",
        Feat::NoBlankSeparator => "no-blank-separator",
        Feat::TabSeparator => "tab-separator",
        Feat::WideSpacing => "wide-spacing",
        Feat::HyphenDate => "hyphen-date",
        Feat::UnpaddedDate => "unpadded-date",
        Feat::EffectiveDate => "effective-date",
        Feat::ClearState => "clear-state",
        Feat::Code => "code",
        Feat::CodeInnerSpace => "code-inner-space",
        Feat::HeaderInlineMeta => "header-inline-meta",
        Feat::TxnMeta => "txn-meta",
        Feat::PostingMeta => "posting-meta",
        Feat::PostingInlineMeta => "posting-inline-meta",
        Feat::MetaTags => "meta-tags",
        Feat::MetaKv => "meta-kv",
        Feat::MetaKvExpr => "meta-kv-expr",
        Feat::LotPrice => "lot-price",
        Feat::LotDate => "lot-date",
        Feat::LotNote => "lot-note",
        Feat::Cost => "cost",
        Feat::Assertion => "assertion",
        Feat::AssertionOnly => "assertion-only",
        Feat::ParenExpr => "paren-expr",
        Feat::OpNoSpace => "op-without-spaces",
        Feat::UnaryMinus => "unary-minus",
        Feat::NestedParen => "nested-paren",
        Feat::BareNumber => "bare-number",
        Feat::Grouped => "grouped-number",
        Feat::SmallGrouped => "grouped-zero-thousands",
        Feat::ManyDecimals => "many-decimals",
        Feat::Negative => "negative-literal",
        Feat::UnicodeAccount => "unicode-account",
        Feat::LongAccount => "long-account",
        Feat::AccountPunct => "account-punct",
        Feat::UnicodeCommodity => "unicode-commodity",
        Feat::UnicodePayee => "unicode-payee",
        Feat::EmptyPayee => "empty-payee",
        Feat::NoPostings => "no-postings",
        Feat::CommentPrefix => "comment-prefix",
        Feat::MultiLineComment => "multi-line-comment",
        Feat::SubDirectiveComment => "subdirective-comment",
        Feat::SubDirectiveNote => "subdirective-note",
        Feat::SubDirectiveAlias => "subdirective-alias",
        Feat::CommodityFormat => "commodity-format",
        Feat::ApplyTagValue => "apply-tag-value",
        Feat::DirectiveTrailingSpace => "directive-trailing-space",
        Feat::IncludeEntry => "include",
        Feat::AttachedCommodity => "attached-commodity",
        Feat::PostingClearState => "posting-clear-state",
        Feat::TrailingWsEof => "whitespace-only-last-line-at-eof",
    }
}

#[derive(Clone, Copy, PartialEq, Eq)]
pub struct FeatSet(pub u64);

impl FeatSet {
    pub const ALL: FeatSet = FeatSet(u64::MAX);
    pub const NONE: FeatSet = FeatSet(0);
    pub fn has(self, f: Feat) -> bool {
        self.0 & (1u64 << (f as u32)) != 0
    }
    pub fn with(self, f: Feat) -> FeatSet {
        FeatSet(self.0 | (1u64 << (f as u32)))
    }
    pub fn without(self, f: Feat) -> FeatSet {
        FeatSet(self.0 & !(1u64 << (f as u32)))
    }
    pub fn names(self) -> Vec<&'static str> {
        ALL_FEATS.iter().filter(|f| self.has(**f)).map(|f| feat_name(*f)).collect()
    }
    pub fn list(self) -> Vec<Feat> {
        ALL_FEATS.iter().copied().filter(|f| self.has(*f)).collect()
    }
}

pub struct GenFile {
    pub text: String,
    pub entries: Vec<LedgerEntry<'static>>,
    /// Text of each entry alone (LF, newline-terminated), for isolation.
    pub entry_texts: Vec<String>,
    pub used: FeatSet,
}

pub struct SynGen {
    pub rng: Rng,
    pub mask: FeatSet,
    pub used: FeatSet,
    /// include entries allowed (they are meaningless to the formatter, fine for parse/format).
    pub allow_include: bool,
}

const ASCII_ACCOUNTS: &[&str] = &[
    "Assets:Bank", "Assets:Cash", "Expenses:Food", "Expenses:Grocery Store", "Income:Salary",
    "Liabilities:Card", "Equity", "A", "Assets:Broker:Lot 1", "Expenses:Tax:2024",
];
const UNI_ACCOUNTS: &[&str] = &["資産:銀行", "Assets:J 銀行", "費用:食費", "Активы:Банк", "Dépenses:Café", "자산:은행", "支出:食費\u{3000}外食", "Assets:Caf\u{a0}Bar"];
const PUNCT_ACCOUNTS: &[&str] = &["Assets:A=B", "Assets:Foo(bar)", "Expenses:50%", "Assets:a@b", "Liabilities:#1", "Assets:x{y}", "Income:[old]"];
const ASCII_COMMODITIES: &[&str] = &["USD", "EUR", "JPY", "CHF", "AAPL", "OKANE", "Pt"];
const UNI_COMMODITIES: &[&str] = &["$", "€", "米ドル", "円", "₿"];
const PAYEES: &[&str] = &["Grocery", "My Shop #12", "Transfer to savings", "ACME Corp.", "a", "Rent 2024-03", "Café (downtown)", "x = y @ z", "(half open", "closed) late"];
const UNI_PAYEES: &[&str] = &["スーパー 西友", "Bäckerei Müller", "Кофейня", "支払い 2024"];
const WORDS: &[&str] = &["note", "paid by card", "weekly", "x", "see receipt 42", "メモ", "a b  c", "100% sure"];
const TAGS: &[&str] = &["tag", "Payee", "trip2024", "x-y", "日付", "k_1"];

impl SynGen {
    pub fn new(rng: Rng, mask: FeatSet) -> Self {
        SynGen {
            rng,
            mask,
            used: FeatSet::NONE,
            allow_include: true,
        }
    }

    /// Draws the decision unconditionally, then applies the mask.
    fn feat(&mut self, f: Feat, num: u64, den: u64) -> bool {
        let r = self.rng.chance(num, den);
        if r && self.mask.has(f) {
            self.used = self.used.with(f);
            true
        } else {
            false
        }
    }

    /// Runs `f` on a child generator whose stream is seeded by exactly one draw of this one,
    /// and only if `on`. Whatever `f` consumes, this generator's stream advances by one draw,
    /// so switching features off never shifts the rest of the case.
    fn opt<T>(&mut self, on: bool, f: impl FnOnce(&mut SynGen) -> T) -> Option<T> {
        let seed = self.rng.next_u64();
        if !on {
            return None;
        }
        let mut child = SynGen {
            rng: Rng::for_case(seed, "fork", 0),
            mask: self.mask,
            used: FeatSet::NONE,
            allow_include: self.allow_include,
        };
        let r = f(&mut child);
        self.used = FeatSet(self.used.0 | child.used.0);
        Some(r)
    }

    fn sub<T>(&mut self, f: impl FnOnce(&mut SynGen) -> T) -> T {
        self.opt(true, f).unwrap()
    }

    fn sp1(&mut self) -> String {
        // sp+
        let wide = self.feat(Feat::WideSpacing, 1, 4);
        let n = 1 + self.rng.usize(3);
        let tab = self.rng.chance(1, 3);
        if !wide {
            return " ".to_string();
        }
        (0..n).map(|i| if tab && i == 0 { '\t' } else { ' ' }).collect()
    }

    fn sp0(&mut self) -> String {
        // sp*
        let wide = self.feat(Feat::WideSpacing, 1, 5);
        let n = self.rng.usize(3);
        if !wide {
            return String::new();
        }
        " ".repeat(n)
    }

    fn date(&mut self) -> NaiveDate {
        let y = 2000 + self.rng.range(0, 30) as i32;
        let m = self.rng.range(1, 12) as u32;
        let d = self.rng.range(1, 28) as u32;
        NaiveDate::from_ymd_opt(y, m, d).unwrap()
    }

    fn date_text(&mut self, d: NaiveDate) -> String {
        use chrono::Datelike;
        let hyphen = self.feat(Feat::HyphenDate, 1, 3);
        let unpadded = self.feat(Feat::UnpaddedDate, 1, 6);
        let sep = if hyphen { '-' } else { '/' };
        if unpadded && !hyphen {
            format!("{}{}{}{}{}", d.year(), sep, d.month(), sep, d.day())
        } else {
            format!("{:04}{}{:02}{}{:02}", d.year(), sep, d.month(), sep, d.day())
        }
    }

    /// A literal: (text, PrettyDecimal). All draws are unconditional.
    fn number(&mut self, allow_negative: bool) -> (String, PrettyDecimal) {
        let grouped = self.feat(Feat::Grouped, 1, 3);
        let small_grouped = self.feat(Feat::SmallGrouped, 1, 25);
        let many = self.feat(Feat::ManyDecimals, 1, 10);
        let neg = self.feat(Feat::Negative, 1, 4) && allow_negative;
        let nint_class = self.rng.below(10);
        let nint_extra = self.rng.usize(5);
        let nint = match nint_class {
            0..=4 => 1 + nint_extra % 3,
            5..=8 => 4 + nint_extra % 4,
            _ => 8 + nint_extra,
        };
        let int_digits: Vec<u64> = (0..13).map(|_| self.rng.below(10)).collect();
        let small = self.rng.below(1000);
        let many_n = 7 + self.rng.usize(8);
        let few_n = *self.rng.pick(&[0usize, 0, 0, 1, 2, 2, 2, 3, 4]);
        let frac_digits: Vec<u64> = (0..15).map(|_| self.rng.below(10)).collect();
        let trailing_dot_draw = self.rng.chance(1, 30);
        let mut int: String = (0..nint)
            .map(|i| {
                let d = if i == 0 && nint > 1 && int_digits[i] == 0 { 1 } else { int_digits[i] };
                (b'0' + d as u8) as char
            })
            .collect();
        if small_grouped {
            // a grouped literal without thousands to group: 0,123
            int = format!("0{:03}", small);
        }
        let nfrac = if many { many_n } else { few_n };
        let frac: String = (0..nfrac).map(|i| (b'0' + frac_digits[i] as u8) as char).collect();
        let trailing_dot = nfrac == 0 && trailing_dot_draw;
        let do_group = (grouped && int.len() > 3) || small_grouped;
        let mut text = String::new();
        if neg {
            text.push('-');
        }
        if do_group {
            let first = int.len() % 3;
            let mut i = 0;
            if first > 0 {
                text.push_str(&int[..first]);
                i = first;
            }
            while i < int.len() {
                if i > 0 {
                    text.push(',');
                }
                text.push_str(&int[i..i + 3]);
                i += 3;
            }
        } else {
            text.push_str(&int);
        }
        if nfrac > 0 || trailing_dot {
            text.push('.');
            text.push_str(&frac);
        }
        let mut mant: i128 = format!("{}{}", int, frac).parse().unwrap();
        if neg {
            mant = -mant;
        }
        let value = Decimal::from_i128_with_scale(mant, nfrac as u32);
        let pd = if do_group {
            PrettyDecimal::comma3dot(value)
        } else if int.len() >= 4 {
            PrettyDecimal::plain(value)
        } else {
            PrettyDecimal::unformatted(value)
        };
        (text, pd)
    }

    fn commodity(&mut self) -> String {
        let uni = self.feat(Feat::UnicodeCommodity, 1, 6);
        let u = self.rng.pick(UNI_COMMODITIES).to_string();
        let a = self.rng.pick(ASCII_COMMODITIES).to_string();
        if uni {
            u
        } else {
            a
        }
    }

    fn amount(&mut self, allow_negative: bool, allow_bare: bool) -> (String, Amount<'static>) {
        let (ntext, pd) = self.number(allow_negative);
        let bare = self.feat(Feat::BareNumber, 1, 12) && allow_bare;
        let c = self.commodity();
        let attached = self.feat(Feat::AttachedCommodity, 1, 10);
        let sp = self.sp1();
        if bare {
            return (
                ntext,
                Amount {
                    value: pd,
                    commodity: Cow::Borrowed(""),
                },
            );
        }
        let sep = if attached { String::new() } else { sp };
        (
            format!("{}{}{}", ntext, sep, c),
            Amount {
                value: pd,
                commodity: Cow::Owned(c),
            },
        )
    }

    fn op_sp(&mut self) -> String {
        if self.feat(Feat::OpNoSpace, 1, 8) {
            String::new()
        } else {
            " ".to_string()
        }
    }

    fn unary(&mut self, depth: u32) -> (String, Expr<'static>) {
        let neg = self.feat(Feat::UnaryMinus, 1, 5);
        let nested = self.feat(Feat::NestedParen, 1, 6) && depth < 2;
        let nested_part = self.opt(nested, |g| g.add_expr(depth + 1));
        let plain_part = self.opt(!nested, |g| g.amount(false, true));
        let (t, ve) = match (nested_part, plain_part) {
            (Some((t, e)), _) => (format!("({})", t), ValueExpr::Paren(e)),
            (None, Some((t, a))) => (t, ValueExpr::Amount(a)),
            _ => unreachable!(),
        };
        if neg {
            (
                format!("-{}", t),
                Expr::Unary(UnaryOpExpr {
                    op: UnaryOp::Negate,
                    expr: Box::new(Expr::Value(Box::new(ve))),
                }),
            )
        } else {
            (t, Expr::Value(Box::new(ve)))
        }
    }

    fn mul_expr(&mut self, depth: u32) -> (String, Expr<'static>) {
        let (mut text, mut e) = self.sub(|g| g.unary(depth));
        let n = *self.rng.pick(&[0usize, 0, 0, 1, 1, 2]);
        for _ in 0..n {
            let op = if self.rng.chance(1, 2) { BinaryOp::Mul } else { BinaryOp::Div };
            let (rt, r) = self.sub(|g| g.unary(depth));
            let s1 = self.op_sp();
            let s2 = self.op_sp();
            text = format!("{}{}{}{}{}", text, s1, op, s2, rt);
            e = Expr::Binary(BinaryOpExpr {
                op,
                lhs: Box::new(e),
                rhs: Box::new(r),
            });
        }
        (text, e)
    }

    fn add_expr(&mut self, depth: u32) -> (String, Expr<'static>) {
        let (mut text, mut e) = self.sub(|g| g.mul_expr(depth));
        let n = *self.rng.pick(&[0usize, 1, 1, 2]);
        for _ in 0..n {
            let op = if self.rng.chance(1, 2) { BinaryOp::Add } else { BinaryOp::Sub };
            let (rt, r) = self.sub(|g| g.mul_expr(depth));
            let s1 = self.op_sp();
            let s2 = self.op_sp();
            text = format!("{}{}{}{}{}", text, s1, op, s2, rt);
            e = Expr::Binary(BinaryOpExpr {
                op,
                lhs: Box::new(e),
                rhs: Box::new(r),
            });
        }
        (text, e)
    }

    fn value_expr(&mut self, allow_bare: bool) -> (String, ValueExpr<'static>) {
        let paren = self.feat(Feat::ParenExpr, 1, 5);
        let p = self.opt(paren, |g| {
            let (t, e) = g.add_expr(0);
            let a = g.sp0();
            let b = g.sp0();
            (format!("({}{}{})", a, t, b), ValueExpr::Paren(e))
        });
        let q = self.opt(!paren, |g| {
            let (t, a) = g.amount(true, allow_bare);
            (t, ValueExpr::Amount(a))
        });
        p.or(q).unwrap()
    }

    fn account(&mut self) -> String {
        let uni = self.feat(Feat::UnicodeAccount, 1, 6);
        let punct = self.feat(Feat::AccountPunct, 1, 12);
        let long = self.feat(Feat::LongAccount, 1, 8);
        let u = self.rng.pick(UNI_ACCOUNTS).to_string();
        let p = self.rng.pick(PUNCT_ACCOUNTS).to_string();
        let a = self.rng.pick(ASCII_ACCOUNTS).to_string();
        let n = 20 + self.rng.usize(40);
        let mut a = if uni {
            u
        } else if punct {
            p
        } else {
            a
        };
        if long {
            a.push(':');
            for i in 0..n {
                a.push(if i % 9 == 8 { ' ' } else { (b'a' + (i % 26) as u8) as char });
            }
            a = a.trim_end().to_string();
        }
        a
    }

    fn metadata(&mut self) -> (String, Metadata<'static>) {
        // returned text starts right after the ';'
        let tags_on = self.feat(Feat::MetaTags, 1, 5);
        let kv_on = self.feat(Feat::MetaKv, 1, 4);
        let tags = self.opt(tags_on, |g| {
            let n = 1 + g.rng.usize(3);
            let tags: Vec<String> = (0..n).map(|_| g.rng.pick(TAGS).to_string()).collect();
            let lead = g.sp0();
            let text = format!("{}:{}:", lead, tags.join(":"));
            (text, Metadata::WordTags(tags.into_iter().map(Cow::Owned).collect()))
        });
        let kv = self.opt(!tags_on && kv_on, |g| {
            let key = g.rng.pick(TAGS).to_string();
            let is_expr = g.feat(Feat::MetaKvExpr, 1, 3);
            let word = g.rng.pick(WORDS).to_string();
            let value = if is_expr { "10 USD".to_string() } else { word };
            let lead = g.sp0();
            let s1 = g.sp0();
            let s2 = g.sp1();
            let text = format!("{}{}{}{}{}{}", lead, key, s1, if is_expr { "::" } else { ":" }, s2, value);
            let v = if is_expr {
                MetadataValue::Expr(Cow::Owned(value))
            } else {
                MetadataValue::Text(Cow::Owned(value))
            };
            (
                text,
                Metadata::KeyValueTag {
                    key: Cow::Owned(key),
                    value: v,
                },
            )
        });
        let comment = self.sub(|g| {
            // free text may begin with a colon without being a tag list
            let w = if g.rng.chance(1, 8) { g.rng.pick(&[":-D she paid", ": see receipt", "::", ":", ":a:b: trailing text", ":not a tag"]).to_string() } else { g.rng.pick(WORDS).to_string() };
            let lead = g.sp1();
            (format!("{}{}", lead, w), Metadata::Comment(Cow::Owned(w)))
        });
        tags.or(kv).unwrap_or(comment)
    }

    fn indent(&mut self) -> String {
        let wide = self.feat(Feat::WideSpacing, 1, 4);
        let n = 1 + self.rng.usize(6);
        let tab = self.rng.chance(1, 4);
        if !wide {
            return "    ".to_string();
        }
        if tab {
            "\t".to_string()
        } else {
            " ".repeat(n)
        }
    }

    fn lot_and_cost(&mut self, text: &mut String, pa: &mut PostingAmount<'static>) {
        let has_price = self.feat(Feat::LotPrice, 1, 6);
        let has_date = self.feat(Feat::LotDate, 1, 10);
        let has_note = self.feat(Feat::LotNote, 1, 10);
        let mut order = [0u8, 1, 2];
        self.rng.shuffle(&mut order);
        let price = self.opt(has_price, |g| {
            let total = g.rng.chance(1, 3);
            let (t, a) = g.amount(false, false);
            let (s0, s1, s2) = (g.sp1(), g.sp0(), g.sp0());
            if total {
                (format!("{}{{{{{}{}{}}}}}", s0, s1, t, s2), Exchange::Total(ValueExpr::Amount(a)))
            } else {
                (format!("{}{{{}{}{}}}", s0, s1, t, s2), Exchange::Rate(ValueExpr::Amount(a)))
            }
        });
        let date = self.opt(has_date, |g| {
            let d = g.date();
            let dt = g.date_text(d);
            let (s0, s1, s2) = (g.sp1(), g.sp0(), g.sp0());
            (format!("{}[{}{}{}]", s0, s1, dt, s2), d)
        });
        let note = self.opt(has_note, |g| {
            let note = g.rng.pick(&["lot 1", "bought at IPO", "x", "ロット", "lot 7; tranche B", "50% = half, #2 | ok"]).to_string();
            let s0 = g.sp1();
            (format!("{}({})", s0, note), note)
        });
        for p in order {
            match p {
                0 => {
                    if let Some((t, x)) = &price {
                        text.push_str(t);
                        pa.lot.price = Some(match x {
                            Exchange::Total(v) => Exchange::Total(v.clone()),
                            Exchange::Rate(v) => Exchange::Rate(v.clone()),
                        });
                    }
                }
                1 => {
                    if let Some((t, d)) = &date {
                        text.push_str(t);
                        pa.lot.date = Some(*d);
                    }
                }
                _ => {
                    if let Some((t, n)) = &note {
                        text.push_str(t);
                        pa.lot.note = Some(Cow::Owned(n.clone()));
                    }
                }
            }
        }
        let has_cost = self.feat(Feat::Cost, 1, 4);
        let cost = self.opt(has_cost, |g| {
            let s = g.sp1();
            let total = g.rng.chance(1, 3);
            let (t, ve) = g.value_expr(false);
            let s1 = g.sp0();
            if total {
                (format!("{}@@{}{}", s, s1, t), Exchange::Total(ve))
            } else {
                (format!("{}@{}{}", s, s1, t), Exchange::Rate(ve))
            }
        });
        if let Some((t, x)) = cost {
            text.push_str(&t);
            pa.cost = Some(x);
        }
    }

    fn posting(&mut self) -> (String, Posting<'static>) {
        let mut text = self.indent();
        let has_state = self.feat(Feat::PostingClearState, 1, 8);
        let cleared = self.rng.chance(1, 2);
        let state = if has_state {
            if cleared {
                text.push_str("* ");
                ClearState::Cleared
            } else {
                text.push_str("! ");
                ClearState::Pending
            }
        } else {
            ClearState::Uncleared
        };
        let account = self.sub(|g| g.account());
        text.push_str(&account);
        let mut post = Posting::new_untracked(account);
        post.clear_state = state;
        let kind = self.rng.below(10);
        let assertion_only = self.feat(Feat::AssertionOnly, 1, 8);
        let tab_sep = self.feat(Feat::TabSeparator, 1, 4);
        let pad = self.rng.usize(12);
        let has_value = kind < 8 || assertion_only;
        if has_value {
            // posting-value ::= ("  " | "\t") sp* (posting-amount sp*)? balance?
            text.push_str(if tab_sep { "\t" } else { "  " });
            text.push_str(&" ".repeat(pad));
        }
        let amount_part = self.opt(has_value && !assertion_only, |g| {
            let (t, ve) = g.value_expr(true);
            let mut text = t;
            let mut pa = PostingAmount {
                amount: ve,
                cost: None,
                lot: Lot::default(),
            };
            g.lot_and_cost(&mut text, &mut pa);
            (text, pa)
        });
        if let Some((t, pa)) = amount_part {
            text.push_str(&t);
            post.amount = Some(pa);
        }
        let has_assertion = self.feat(Feat::Assertion, 1, 5);
        let assertion = self.opt(has_value && (assertion_only || has_assertion), |g| {
            let lead = g.sp1();
            let (t, ve) = g.value_expr(true);
            let s1 = g.sp0();
            let s2 = g.sp0();
            (lead, format!("={}{}{}", s1, t, s2), ve)
        });
        if let Some((lead, t, ve)) = assertion {
            if !assertion_only {
                text.push_str(&lead);
            }
            text.push_str(&t);
            post.balance = Some(ve);
        }
        let inline_meta_on = self.feat(Feat::PostingInlineMeta, 1, 6);
        let inline_meta = self.opt(inline_meta_on, |g| {
            let s = g.sp1();
            let (mt, m) = g.metadata();
            (format!("{};{}", s, mt), m)
        });
        if let Some((t, m)) = inline_meta {
            text.push_str(&t);
            post.metadata.push(m);
        }
        text.push('\n');
        let meta_on = self.feat(Feat::PostingMeta, 1, 6);
        let metas = self.opt(meta_on, |g| {
            let n = 1 + g.rng.usize(2);
            (0..n)
                .map(|_| {
                    let ind = g.indent();
                    let (mt, m) = g.sub(|h| h.metadata());
                    (format!("{};{}\n", ind, mt), m)
                })
                .collect::<Vec<_>>()
        });
        for (t, m) in metas.unwrap_or_default() {
            text.push_str(&t);
            post.metadata.push(m);
        }
        (text, post)
    }

    fn transaction(&mut self) -> (String, LedgerEntry<'static>) {
        let date = self.date();
        let mut text = self.date_text(date);
        let mut txn = Transaction::new(date, "");
        let has_edate = self.feat(Feat::EffectiveDate, 1, 6);
        let ed = self.date();
        let edt = self.date_text(ed);
        if has_edate {
            text.push('=');
            text.push_str(&edt);
            txn.effective_date = Some(ed);
        }
        let empty_payee = self.feat(Feat::EmptyPayee, 1, 12);
        let note = self.opt(!empty_payee, |g| {
            let mut text = g.sp1();
            let mut state = ClearState::Uncleared;
            let mut code_out = None;
            let has_state = g.feat(Feat::ClearState, 1, 4);
            let cleared = g.rng.chance(1, 2);
            let s_after_state = g.sp0();
            if has_state {
                if cleared {
                    text.push('*');
                    state = ClearState::Cleared;
                } else {
                    text.push('!');
                    state = ClearState::Pending;
                }
                text.push_str(&s_after_state);
            }
            let has_code = g.feat(Feat::Code, 1, 5);
            let code = g.rng.pick(&["#12", "TXN-001", "a b", "1234", "コード", ""]).to_string();
            let inner = g.feat(Feat::CodeInnerSpace, 1, 6);
            let s_after_code = g.sp0();
            if has_code {
                if inner {
                    text.push_str(&format!("( {} )", code));
                    code_out = Some(format!(" {} ", code));
                } else {
                    text.push_str(&format!("({})", code));
                    code_out = Some(code);
                }
                text.push_str(&s_after_code);
            }
            let uni = g.feat(Feat::UnicodePayee, 1, 5);
            let up = g.rng.pick(UNI_PAYEES).to_string();
            let ap = g.rng.pick(PAYEES).to_string();
            let payee = if uni { up } else { ap };
            text.push_str(&payee);
            (text, state, code_out, payee)
        });
        if let Some((t, state, code, payee)) = note {
            text.push_str(&t);
            txn.clear_state = state;
            txn.code = code.map(Cow::Owned);
            txn.payee = Cow::Owned(payee);
        }
        let header_meta_on = self.feat(Feat::HeaderInlineMeta, 1, 8);
        let header_meta = self.opt(header_meta_on, |g| {
            let s = g.sp0();
            let (mt, m) = g.metadata();
            (format!("{};{}", s, mt), m)
        });
        if let Some((t, m)) = header_meta {
            text.push_str(&t);
            txn.metadata.push(m);
        }
        text.push('\n');
        let meta_on = self.feat(Feat::TxnMeta, 1, 6);
        let metas = self.opt(meta_on, |g| {
            let n = 1 + g.rng.usize(2);
            (0..n)
                .map(|_| {
                    let ind = g.indent();
                    let (mt, m) = g.sub(|h| h.metadata());
                    (format!("{};{}\n", ind, mt), m)
                })
                .collect::<Vec<_>>()
        });
        for (t, m) in metas.unwrap_or_default() {
            text.push_str(&t);
            txn.metadata.push(m);
        }
        let no_posts = self.feat(Feat::NoPostings, 1, 15);
        let nposts = 1 + self.rng.usize(4);
        for _ in 0..nposts {
            let p = self.opt(!no_posts, |g| g.posting());
            if let Some((pt, p)) = p {
                text.push_str(&pt);
                txn.posts.push(p);
            }
        }
        (text, syntax::LedgerEntry::Txn(txn))
    }

    fn trailing(&mut self) -> String {
        let on = self.feat(Feat::DirectiveTrailingSpace, 1, 6);
        let space = self.rng.chance(1, 2);
        if on {
            if space { " ".into() } else { "\t".into() }
        } else {
            String::new()
        }
    }

    fn top_comment(&mut self) -> (String, LedgerEntry<'static>) {
        let multi = self.feat(Feat::MultiLineComment, 1, 3);
        let extra = 1 + self.rng.usize(2);
        let n = if multi { 1 + extra } else { 1 };
        let mut text = String::new();
        let mut content = String::new();
        for i in 0..3 {
            let other = self.feat(Feat::CommentPrefix, 1, 3);
            let alt = *self.rng.pick(&['#', '%', '|', '*']);
            let word = self.rng.pick(WORDS).to_string();
            if i >= n {
                continue;
            }
            let prefix = if other { alt } else { ';' };
            // blanks at the end of a comment line belong to its text
            let tail = *self.rng.pick(&["", "", "", "", "  ", "\t", " "]);
            let body = format!(" {}{}", word, tail);
            text.push(prefix);
            text.push_str(&body);
            text.push('\n');
            content.push_str(&body);
            content.push('\n');
        }
        (text, syntax::LedgerEntry::Comment(TopLevelComment(Cow::Owned(content))))
    }

    fn account_decl(&mut self) -> (String, LedgerEntry<'static>) {
        let name = self.sub(|g| g.account());
        let s = self.sp1();
        let t = self.trailing();
        let mut text = format!("account{}{}{}\n", s, name, t);
        let mut details = Vec::new();
        let n = self.rng.usize(4);
        for _ in 0..n {
            let ind = self.indent();
            let c_on = self.feat(Feat::SubDirectiveComment, 1, 3);
            let n_on = self.feat(Feat::SubDirectiveNote, 1, 2);
            let a_on = self.feat(Feat::SubDirectiveAlias, 1, 1);
            let w = self.rng.pick(WORDS).to_string();
            let a = self.sub(|g| g.account());
            let s = self.sp1();
            let t = self.trailing();
            if c_on {
                text.push_str(&format!("{}; {}\n", ind, w));
                details.push(AccountDetail::Comment(Cow::Owned(format!(" {}\n", w))));
            } else if n_on {
                // one note in six has no text (`note` followed by blanks only)
                let w = if self.rng.chance(1, 6) { String::new() } else { w };
                text.push_str(&format!("{}note{}{}\n", ind, s, w));
                details.push(AccountDetail::Note(Cow::Owned(format!("{}\n", w))));
            } else if a_on {
                text.push_str(&format!("{}alias{}{}{}\n", ind, s, a, t));
                details.push(AccountDetail::Alias(Cow::Owned(a)));
            }
        }
        (
            text,
            syntax::LedgerEntry::Account(AccountDeclaration {
                name: Cow::Owned(name),
                details,
            }),
        )
    }

    fn commodity_decl(&mut self) -> (String, LedgerEntry<'static>) {
        let name = self.sub(|g| g.commodity());
        let s = self.sp1();
        let t = self.trailing();
        let mut text = format!("commodity{}{}{}\n", s, name, t);
        let mut details = Vec::new();
        let n = self.rng.usize(4);
        for _ in 0..n {
            let ind = self.indent();
            let c_on = self.feat(Feat::SubDirectiveComment, 1, 4);
            let n_on = self.feat(Feat::SubDirectiveNote, 1, 3);
            let f_on = self.feat(Feat::CommodityFormat, 1, 2);
            let a_on = self.feat(Feat::SubDirectiveAlias, 1, 1);
            let w = self.rng.pick(WORDS).to_string();
            let a = self.sub(|g| g.commodity());
            let (nt, pd) = self.sub(|g| g.number(false));
            let s = self.sp1();
            let s2 = self.sp1();
            let t = self.trailing();
            if c_on {
                text.push_str(&format!("{}; {}\n", ind, w));
                details.push(CommodityDetail::Comment(Cow::Owned(format!(" {}\n", w))));
            } else if n_on {
                let w = if self.rng.chance(1, 6) { String::new() } else { w };
                text.push_str(&format!("{}note{}{}\n", ind, s, w));
                details.push(CommodityDetail::Note(Cow::Owned(format!("{}\n", w))));
            } else if f_on {
                text.push_str(&format!("{}format{}{}{}{}\n", ind, s, nt, s2, name));
                details.push(CommodityDetail::Format(Amount {
                    value: pd,
                    commodity: Cow::Owned(name.clone()),
                }));
            } else if a_on {
                text.push_str(&format!("{}alias{}{}{}\n", ind, s, a, t));
                details.push(CommodityDetail::Alias(Cow::Owned(a)));
            }
        }
        (
            text,
            syntax::LedgerEntry::Commodity(CommodityDeclaration {
                name: Cow::Owned(name),
                details,
            }),
        )
    }

    fn apply_tag(&mut self) -> (String, LedgerEntry<'static>) {
        let key = self.rng.pick(TAGS).to_string();
        let (s1, s2) = (self.sp1(), self.sp1());
        let mut text = format!("apply{}tag{}{}", s1, s2, key);
        let has_value = self.feat(Feat::ApplyTagValue, 1, 2);
        let is_expr = self.rng.chance(1, 3);
        let word = self.rng.pick(WORDS).to_string();
        let (a, b) = (self.sp0(), self.sp1());
        let t = self.trailing();
        let value = if has_value {
            let v = if is_expr { "10 USD".to_string() } else { word };
            text.push_str(&format!("{}{}{}{}", a, if is_expr { "::" } else { ":" }, b, v));
            Some(if is_expr {
                MetadataValue::Expr(Cow::Owned(v))
            } else {
                MetadataValue::Text(Cow::Owned(v))
            })
        } else {
            text.push_str(&t);
            None
        };
        text.push('\n');
        (
            text,
            syntax::LedgerEntry::ApplyTag(ApplyTag {
                key: Cow::Owned(key),
                value,
            }),
        )
    }

    fn end_apply_tag(&mut self) -> (String, LedgerEntry<'static>) {
        let (s1, s2) = (self.sp1(), self.sp1());
        let t = self.trailing();
        (format!("end{}apply{}tag{}\n", s1, s2, t), syntax::LedgerEntry::EndApplyTag)
    }

    fn include(&mut self) -> (String, LedgerEntry<'static>) {
        let p = self.rng.pick(&["other.ledger", "sub/*.ledger", "../a b.ledger", "year/2024/**/x.ledger"]).to_string();
        let s = self.sp1();
        let t = self.trailing();
        (
            format!("include{}{}{}\n", s, p, t),
            syntax::LedgerEntry::Include(IncludeFile(Cow::Owned(p))),
        )
    }

    pub fn entry(&mut self) -> (String, LedgerEntry<'static>) {
        let k = self.rng.below(20);
        let inc = self.feat(Feat::IncludeEntry, 1, 1) && self.allow_include;
        self.sub(|g| match k {
            0..=11 => g.transaction(),
            12 | 13 => g.top_comment(),
            14 => g.account_decl(),
            15 | 16 => g.commodity_decl(),
            17 => g.apply_tag(),
            18 => g.end_apply_tag(),
            _ => {
                if inc {
                    g.include()
                } else {
                    g.top_comment()
                }
            }
        })
    }

    /// A whole file of `n` entries.
    pub fn file(&mut self, n: usize) -> GenFile {
        let mut text = String::new();
        let mut entries = Vec::new();
        let mut entry_texts = Vec::new();
        let lead_blank = self.rng.usize(3);
        for _ in 0..lead_blank {
            text.push('\n');
        }
        for i in 0..n {
            let (t, e) = self.sub(|g| g.entry());
            let is_comment = matches!(e, syntax::LedgerEntry::Comment(_));
            text.push_str(&t);
            entry_texts.push(t);
            entries.push(e);
            // separator: vertical-space*
            let ws_only = self.feat(Feat::WsOnlySeparator, 1, 6);
            let none = self.feat(Feat::NoBlankSeparator, 1, 10);
            let k = 1 + self.rng.usize(2);
            let spaces = self.rng.chance(1, 2);
            if i + 1 < n {
                if ws_only {
                    text.push_str(if spaces { "  \n" } else { "\t\n" });
                } else if none && !is_comment {
                    // a comment directly followed by another comment would be one entry,
                    // so a blank line is always kept after a comment.
                } else {
                    for _ in 0..k {
                        text.push('\n');
                    }
                }
            }
        }
        let eof = self.feat(Feat::EofFinalLine, 1, 4);
        let extra = self.rng.usize(2);
        if eof {
            while text.ends_with('\n') {
                text.pop();
            }
        } else {
            for _ in 0..extra {
                text.push('\n');
            }
        }
        // vertical-space ::= sp* new-line, new-line ::= ... | <EOF>: a last line holding only
        // horizontal whitespace and ended by end of file is a legal trailing separator.
        let trailing_ws = self.feat(Feat::TrailingWsEof, 1, 8);
        let ws_kind = self.rng.below(3);
        if trailing_ws && text.ends_with('\n') {
            text.push_str(match ws_kind {
                0 => "    ",
                1 => "\t",
                _ => " ",
            });
        }
        if self.feat(Feat::Crlf, 1, 4) {
            text = text.replace('\n', "\r\n");
        }
        GenFile {
            text,
            entries,
            entry_texts,
            used: self.used,
        }
    }
}

// ---------------------------------------------------------------------------------------
// canonical dump of parsed / intended entries

fn dump_number(out: &mut String, v: &PrettyDecimal) {
    use okane_core::syntax::pretty_decimal::Format;
    let mant = v.value.mantissa();
    let scale = v.value.scale();
    // grouping style is only meaningful when there are thousands to group.
    let int_abs = {
        let mut m = mant.unsigned_abs();
        for _ in 0..scale {
            m /= 10;
        }
        m
    };
    let style = if int_abs >= 1000 {
        match v.format {
            Some(Format::Comma3Dot) => "G",
            _ => "P",
        }
    } else {
        "-"
    };
    out.push_str(&format!("num[{}e-{} {}]", mant, scale, style));
}

fn dump_amount(out: &mut String, a: &Amount) {
    dump_number(out, &a.value);
    out.push_str(&format!(" <{}>", a.commodity));
}

fn dump_expr(out: &mut String, e: &Expr) {
    match e {
        Expr::Unary(u) => {
            out.push_str("(neg ");
            dump_expr(out, &u.expr);
            out.push(')');
        }
        Expr::Binary(b) => {
            out.push_str(&format!("({} ", b.op));
            dump_expr(out, &b.lhs);
            out.push(' ');
            dump_expr(out, &b.rhs);
            out.push(')');
        }
        Expr::Value(v) => dump_value_expr(out, v),
    }
}

pub fn dump_value_expr(out: &mut String, v: &ValueExpr) {
    match v {
        ValueExpr::Amount(a) => dump_amount(out, a),
        ValueExpr::Paren(e) => {
            out.push_str("(paren ");
            dump_expr(out, e);
            out.push(')');
        }
    }
}

fn dump_meta(out: &mut String, m: &Metadata) {
    match m {
        Metadata::Comment(c) => out.push_str(&format!("  META comment <{}>\n", c.trim())),
        Metadata::WordTags(t) => out.push_str(&format!("  META tags <{}>\n", t.join("|"))),
        Metadata::KeyValueTag { key, value } => match value {
            MetadataValue::Text(t) => out.push_str(&format!("  META kv <{}> text <{}>\n", key, t.trim())),
            MetadataValue::Expr(t) => out.push_str(&format!("  META kv <{}> expr <{}>\n", key, t.trim())),
        },
    }
}

fn dump_exchange(out: &mut String, x: &Exchange) {
    match x {
        Exchange::Total(v) => {
            out.push_str("total ");
            dump_value_expr(out, v);
        }
        Exchange::Rate(v) => {
            out.push_str("rate ");
            dump_value_expr(out, v);
        }
    }
}

fn state_char(s: ClearState) -> char {
    match s {
        ClearState::Uncleared => '.',
        ClearState::Cleared => '*',
        ClearState::Pending => '!',
    }
}

fn dump_text_lines(s: &str) -> String {
    s.lines().map(|l| l.trim()).collect::<Vec<_>>().join("\\n")
}

/// Consecutive comment (or note) sub-directive lines are one multi-line comment (note):
/// the tree may hold them merged or line by line, the meaning is the same.
fn dump_details(out: &mut String, details: Vec<(String, String)>) {
    let mut merged: Vec<(String, String)> = Vec::new();
    for (k, v) in details {
        match merged.last_mut() {
            Some((lk, lv)) if *lk == k && (k == "comment" || k == "note") => {
                lv.push_str("\\n");
                lv.push_str(&v);
            }
            _ => merged.push((k, v)),
        }
    }
    for (k, v) in merged {
        out.push_str(&format!(" DETAIL {} <{}>\n", k, v));
    }
}

/// Canonical, whitespace-insensitive rendering of what an entry *means*.
pub fn dump_entry(e: &LedgerEntry) -> String {
    let mut out = String::new();
    match e {
        syntax::LedgerEntry::Txn(t) => {
            out.push_str(&format!(
                "TXN date={} edate={} state={} code=<{}> payee=<{}>\n",
                t.date,
                t.effective_date.map(|d| d.to_string()).unwrap_or("-".into()),
                state_char(t.clear_state),
                // the code is what stands between the parentheses, blanks at either end included
                t.code.as_ref().map(|c| format!("some:{}", c)).unwrap_or("none".into()),
                // ASCII blanks around a payee are not significant in the grammar (the header parser
                // skips them); any other leading character, a wide space included, is payee text
                t.payee.trim_end().trim_start_matches([' ', '\t'])
            ));
            for m in &t.metadata {
                dump_meta(&mut out, m);
            }
            for p in &t.posts {
                out.push_str(&format!(" POST state={} account=<{}>\n", state_char(p.clear_state), p.account));
                if let Some(a) = &p.amount {
                    out.push_str("  AMOUNT ");
                    dump_value_expr(&mut out, &a.amount);
                    out.push('\n');
                    if let Some(x) = &a.lot.price {
                        out.push_str("  LOTPRICE ");
                        dump_exchange(&mut out, x);
                        out.push('\n');
                    }
                    if let Some(d) = &a.lot.date {
                        out.push_str(&format!("  LOTDATE {}\n", d));
                    }
                    if let Some(n) = &a.lot.note {
                        out.push_str(&format!("  LOTNOTE <{}>\n", n));
                    }
                    if let Some(x) = &a.cost {
                        out.push_str("  COST ");
                        dump_exchange(&mut out, x);
                        out.push('\n');
                    }
                }
                if let Some(b) = &p.balance {
                    out.push_str("  ASSERT ");
                    dump_value_expr(&mut out, b);
                    out.push('\n');
                }
                for m in &p.metadata {
                    dump_meta(&mut out, m);
                }
            }
        }
        // the text of a top-level comment is kept as written (blanks at either end included)
        syntax::LedgerEntry::Comment(c) => out.push_str(&format!("COMMENT <{}>\n", c.0.lines().collect::<Vec<_>>().join("\\n"))),
        syntax::LedgerEntry::ApplyTag(a) => {
            out.push_str(&format!("APPLYTAG <{}>", a.key));
            match &a.value {
                None => out.push('\n'),
                Some(MetadataValue::Text(t)) => out.push_str(&format!(" text <{}>\n", t.trim())),
                Some(MetadataValue::Expr(t)) => out.push_str(&format!(" expr <{}>\n", t.trim())),
            }
        }
        syntax::LedgerEntry::EndApplyTag => out.push_str("ENDAPPLYTAG\n"),
        syntax::LedgerEntry::Include(i) => out.push_str(&format!("INCLUDE <{}>\n", i.0)),
        syntax::LedgerEntry::Account(a) => {
            out.push_str(&format!("ACCOUNT <{}>\n", a.name));
            let mut details: Vec<(String, String)> = Vec::new();
            for d in &a.details {
                details.push(match d {
                    AccountDetail::Comment(c) => ("comment".into(), dump_text_lines(c)),
                    AccountDetail::Note(c) => ("note".into(), dump_text_lines(c)),
                    AccountDetail::Alias(c) => ("alias".into(), c.to_string()),
                });
            }
            dump_details(&mut out, details);
        }
        syntax::LedgerEntry::Commodity(a) => {
            out.push_str(&format!("COMMODITY <{}>\n", a.name));
            let mut details: Vec<(String, String)> = Vec::new();
            for d in &a.details {
                details.push(match d {
                    CommodityDetail::Comment(c) => ("comment".into(), dump_text_lines(c)),
                    CommodityDetail::Note(c) => ("note".into(), dump_text_lines(c)),
                    CommodityDetail::Alias(c) => ("alias".into(), c.to_string()),
                    CommodityDetail::Format(f) => {
                        let mut t = String::new();
                        dump_amount(&mut t, f);
                        ("format".into(), t)
                    }
                });
            }
            dump_details(&mut out, details);
        }
    }
    out
}
