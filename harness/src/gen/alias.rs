//! Declared aliases for accounts and commodities, and a `Namer` that writes a random subset
//! of the later occurrences through them (C12; also used to reach accounts through aliases in
//! C01-C04).

use std::collections::{BTreeMap, BTreeSet};

use crate::gen::ledger::{AmountExpr, Entry, Ledger, Namer};
use crate::rng::Rng;

#[derive(Clone, Debug, Default)]
pub struct AliasPlan {
    pub accounts: BTreeMap<String, Vec<String>>,
    pub commodities: BTreeMap<String, Vec<String>>,
}

const COMMODITY_ALIASES: &[(&str, [&str; 5])] = &[
    // (the last two of each row carry characters that are legal in a commodity but easily
    // mistaken for something else: comment prefixes, non-ASCII numerics)
    ("USD", ["Dollar", "US", "米ドル", "US#", "Dollar²"]),
    ("EUR", ["Euro", "EU", "欧", "E%", "CO₂e"]),
    ("JPY", ["Yen", "JP", "円", "¥%", "円²"]),
    ("AAPL", ["Apple", "AP", "林檎", "AP#", "Apple½"]),
    ("CHF", ["Franc", "CH", "フラン", "CH%", "Fr²"]),
    ("GBP", ["Pound", "GB", "ポンド", "GB#", "£½"]),
];

pub fn used_names(ledger: &Ledger) -> (BTreeSet<String>, BTreeSet<String>) {
    let mut accounts = BTreeSet::new();
    let mut commodities = BTreeSet::new();
    for (_, t) in ledger.txns() {
        for p in &t.posts {
            accounts.insert(p.account.clone());
            if let Some(a) = &p.amount {
                let c = match a {
                    AmountExpr::Lit(x) => x.commodity.clone(),
                    AmountExpr::Expr { commodity, .. } => commodity.clone(),
                };
                if !c.is_empty() {
                    commodities.insert(c);
                }
            }
            for pr in [p.cost.as_ref(), p.lot.as_ref()].into_iter().flatten() {
                if !pr.amt().commodity.is_empty() {
                    commodities.insert(pr.amt().commodity.clone());
                }
            }
            if let Some(b) = &p.assertion {
                if !b.commodity.is_empty() {
                    commodities.insert(b.commodity.clone());
                }
            }
        }
    }
    (accounts, commodities)
}

impl AliasPlan {
    /// 1-3 aliases for a random subset of the accounts and commodities the ledger uses.
    pub fn random(rng: &mut Rng, ledger: &Ledger) -> AliasPlan {
        let (accounts, commodities) = used_names(ledger);
        let mut plan = AliasPlan::default();
        for (i, a) in accounts.iter().enumerate() {
            if !rng.chance(3, 4) {
                continue;
            }
            let n = 1 + rng.usize(3);
            let leaf = a.rsplit(':').next().unwrap_or(a);
            let mut pool = vec![
                format!("{}{}", leaf.to_lowercase(), i),
                format!("Al{}:{}", i, leaf),
                format!("別名{}", i),
                // comment-prefix characters inside a name are part of the name
                format!("{} *{}", leaf, 10 + i),
                format!("{}#{}%", leaf, i),
                format!("{}|{}", leaf.to_lowercase(), i),
            ];
            if rng.chance(1, 2) {
                rng.shuffle(&mut pool);
            }
            plan.accounts.insert(a.clone(), pool.into_iter().take(n).collect());
        }
        for c in &commodities {
            if !rng.chance(3, 4) {
                continue;
            }
            if let Some((_, al)) = COMMODITY_ALIASES.iter().find(|(k, _)| k == c) {
                let n = 1 + rng.usize(3);
                let mut al: Vec<&str> = al.to_vec();
                if rng.chance(1, 2) {
                    rng.shuffle(&mut al);
                }
                plan.commodities.insert(c.clone(), al.iter().take(n).map(|s| s.to_string()).collect());
            }
        }
        plan
    }

    pub fn all_aliases(&self) -> Vec<String> {
        self.accounts.values().chain(self.commodities.values()).flatten().cloned().collect()
    }

    /// Puts the declarations in front of the ledger (existing `commodity` entries gain their aliases).
    pub fn declare(&self, ledger: &Ledger) -> Ledger {
        let mut out = Ledger::default();
        let mut seen = BTreeSet::new();
        let mut rest = Vec::new();
        let mut txn_seen = false;
        for e in &ledger.entries {
            match e {
                // only a commodity's first declaration, and only one that precedes every
                // transaction, takes the aliases (a later re-declaration stays as it is)
                Entry::Commodity { name, precision, aliases } if !txn_seen && !seen.contains(name) => {
                    let mut al = aliases.clone();
                    if let Some(extra) = self.commodities.get(name) {
                        al.extend(extra.iter().cloned());
                    }
                    seen.insert(name.clone());
                    rest.push(Entry::Commodity { name: name.clone(), precision: *precision, aliases: al });
                }
                other => {
                    txn_seen |= matches!(other, Entry::Txn(_));
                    rest.push(other.clone())
                }
            }
        }
        for (a, al) in &self.accounts {
            out.entries.push(Entry::Account { name: a.clone(), aliases: al.clone() });
        }
        for (c, al) in &self.commodities {
            if !seen.contains(c) {
                out.entries.push(Entry::Commodity { name: c.clone(), precision: None, aliases: al.clone() });
            }
        }
        out.entries.extend(rest);
        out
    }
}

/// Writes each occurrence through a declared alias with probability `pct`/100.
pub struct RandomNamer<'a> {
    pub plan: &'a AliasPlan,
    pub rng: Rng,
    pub pct: u64,
    pub substitutions: u64,
}

impl<'a> RandomNamer<'a> {
    pub fn new(plan: &'a AliasPlan, seed: u64, pct: u64) -> Self {
        RandomNamer { plan, rng: Rng::for_case(seed, "namer", 0), pct, substitutions: 0 }
    }
}

impl Namer for RandomNamer<'_> {
    fn account(&mut self, canonical: &str) -> String {
        if let Some(al) = self.plan.accounts.get(canonical) {
            if self.rng.chance(self.pct, 100) {
                self.substitutions += 1;
                return self.rng.pick(al).clone();
            }
        }
        canonical.to_string()
    }
    fn commodity(&mut self, canonical: &str) -> String {
        if let Some(al) = self.plan.commodities.get(canonical) {
            if self.rng.chance(self.pct, 100) {
                self.substitutions += 1;
                return self.rng.pick(al).clone();
            }
        }
        canonical.to_string()
    }
}

/// Renders `ledger` with the alias declarations placed after the first `cut` transactions:
/// everything before them is written with canonical names only (which makes those names
/// canonical *by use*), everything after them through `namer`.
pub fn render_late_declarations(ledger: &Ledger, plan: &AliasPlan, cut: usize, namer: &mut dyn Namer) -> String {
    use crate::gen::ledger::{entry_text_named, Identity};
    let mut out = String::new();
    let mut seen_txns = 0usize;
    let mut declared = false;
    let mut declare = |out: &mut String| {
        for (a, al) in &plan.accounts {
            out.push_str(&entry_text_named(&Entry::Account { name: a.clone(), aliases: al.clone() }, &mut Identity).0);
            out.push('\n');
        }
        for (c, al) in &plan.commodities {
            out.push_str(&entry_text_named(&Entry::Commodity { name: c.clone(), precision: None, aliases: al.clone() }, &mut Identity).0);
            out.push('\n');
        }
    };
    for e in &ledger.entries {
        if let Entry::Txn(_) = e {
            if seen_txns == cut && !declared {
                declare(&mut out);
                declared = true;
            }
            seen_txns += 1;
        }
        let text = if declared { entry_text_named(e, namer).0 } else { entry_text_named(e, &mut Identity).0 };
        out.push_str(&text);
        out.push('\n');
    }
    if !declared {
        declare(&mut out);
    }
    out
}
