//! Generator of book-keeping workloads (C01-C04, C10, C12): histories of accepted
//! transactions followed by transactions shaped to sit on the branches the statements name:
//! exactly balanced, off by half a unit of declared precision, zero next to non-zero,
//! two residual commodities of the same / opposite sign, omitted and assigned amounts at
//! every position, assertions that are true, off by one unit, or true one posting earlier.

use chrono::NaiveDate;

use crate::gen::ledger::{AmountExpr, Amt, Dec, Entry, Ledger, Post, Price, Txn};
use crate::model::book::{self, Multi, Outcome, State};
use crate::model::q::Q;
use crate::rng::Rng;

pub const ACCOUNTS: &[&str] = &[
    "Assets:Bank", "Assets:Cash", "Assets:Broker", "Expenses:Food", "Expenses:Rent", "Income:Salary", "Equity:Opening",
    "Liabilities:Card",
    // names that have another account's name as a prefix (a sibling, a child of an account that is
    // posted to itself)
    "Assets:Bank2", "Expenses:Food:Snacks",
];
pub const COMMODITIES: &[&str] = &["USD", "EUR", "JPY", "AAPL"];

#[derive(Clone, Copy, Debug)]
pub struct Profile {
    /// per-posting probability (in 1/100) of carrying `= X`
    pub assertion_pct: u64,
    /// probability (1/100) that a posting is an assignment (`Acct = X` without amount)
    pub assignment_pct: u64,
    pub cost_pct: u64,
    pub lot_pct: u64,
    pub expr_pct: u64,
    /// probability (1/100) of an ill-formed posting (zero price, price in own commodity, bare number)
    pub invalid_pct: u64,
    pub max_history: usize,
    /// bias closing strategy towards the inferred posting
    pub omitted_bias: bool,
    pub declare_precision_pct: u64,
    /// probability (1/100) that a transaction uses magnitudes of 10^12..10^25 (no prices), so that
    /// sums stay representable while products of two totals would not
    pub huge_pct: u64,
    /// never put a lot price and a cost on the same posting (keeps 'the price this posting records' unambiguous)
    pub exclusive_price: bool,
    /// probability (1/100) that a generated price is negative (only where no conversion report depends on it)
    pub negative_price_pct: u64,
}

pub const P_BALANCE: Profile = Profile {
    assertion_pct: 4,
    assignment_pct: 3,
    cost_pct: 25,
    lot_pct: 10,
    expr_pct: 10,
    invalid_pct: 3,
    max_history: 4,
    omitted_bias: false,
    declare_precision_pct: 70,
    huge_pct: 6,
    exclusive_price: false,
    negative_price_pct: 6,
};

pub const P_ASSERT: Profile = Profile {
    assertion_pct: 45,
    assignment_pct: 8,
    cost_pct: 10,
    lot_pct: 4,
    expr_pct: 5,
    invalid_pct: 0,
    max_history: 5,
    omitted_bias: false,
    declare_precision_pct: 40,
    huge_pct: 3,
    exclusive_price: false,
    negative_price_pct: 4,
};

pub const P_INFER: Profile = Profile {
    assertion_pct: 10,
    assignment_pct: 25,
    cost_pct: 20,
    lot_pct: 8,
    expr_pct: 8,
    invalid_pct: 0,
    max_history: 5,
    omitted_bias: true,
    declare_precision_pct: 40,
    huge_pct: 3,
    exclusive_price: false,
    negative_price_pct: 8,
};

/// Report-oriented: only accepted transactions matter, many dates.
pub const P_REPORT: Profile = Profile {
    assertion_pct: 5,
    assignment_pct: 8,
    cost_pct: 15,
    lot_pct: 5,
    expr_pct: 5,
    invalid_pct: 0,
    max_history: 30,
    omitted_bias: true,
    declare_precision_pct: 50,
    huge_pct: 2,
    exclusive_price: false,
    negative_price_pct: 0,
};

/// Conversion reports: many prices from costs and lots, never both on one posting, no huge values.
pub const P_CONVERT: Profile = Profile {
    assertion_pct: 3,
    assignment_pct: 5,
    cost_pct: 30,
    lot_pct: 12,
    expr_pct: 5,
    invalid_pct: 0,
    max_history: 30,
    omitted_bias: true,
    declare_precision_pct: 50,
    huge_pct: 0,
    exclusive_price: true,
    negative_price_pct: 0,
};

const VALUES: &[(i128, u32)] = &[
    (0, 0), (0, 2), (1, 0), (-1, 0), (5, 0), (10, 0), (1234, 2), (5, 3), (15, 3), (25, 3), (-5, 3), (-15, 3), (123456, 2),
    (1000, 0), (1, 2), (9999, 2), (3, 0), (7, 0), (-250, 1), (333, 1), (1, 3), (-100, 0), (42, 0), (150, 2),
];
const PRICES: &[(i128, u32)] = &[(1, 0), (2, 0), (5, 1), (125, 2), (110, 0), (91, 4), (3, 0), (15, 1), (10025, 4)];

pub fn default_precision(c: &str) -> u32 {
    match c {
        "JPY" => 0,
        "AAPL" => 4,
        _ => 2,
    }
}

pub struct BookGen<'r> {
    pub rng: &'r mut Rng,
    pub profile: Profile,
    pub ledger: Ledger,
    pub state: State,
    /// Outcome of every transaction so far (entry index, outcome).
    pub outcomes: Vec<(usize, Outcome)>,
    pub txn_counter: usize,
    pub day: i64,
    pub stopped: bool,
    /// the transaction being generated uses huge magnitudes
    pub huge: bool,
}

fn finite(q: Q) -> Option<Dec> {
    let (m, s) = q.as_decimal_parts(12)?;
    if m.abs() > 1_000_000_000_000_000_000_000_000_000 {
        return None;
    }
    Some(Dec::new(m, s))
}

impl<'r> BookGen<'r> {
    pub fn new(rng: &'r mut Rng, profile: Profile) -> Self {
        BookGen {
            rng,
            profile,
            ledger: Ledger::default(),
            state: State::default(),
            outcomes: Vec::new(),
            txn_counter: 0,
            day: 0,
            stopped: false,
            huge: false,
        }
    }

    pub fn declarations(&mut self) {
        for c in COMMODITIES {
            if self.rng.chance(self.profile.declare_precision_pct, 100) {
                let p = if self.rng.chance(1, 5) { self.rng.below(4) as u32 } else { default_precision(c) };
                self.ledger.entries.push(Entry::Commodity {
                    name: c.to_string(),
                    precision: Some(p),
                    aliases: vec![],
                });
                self.state.precision.insert(c.to_string(), p);
            }
        }
    }

    /// Declares one commodity's `format` again with a different number of decimals: from here on the
    /// latest declaration is the commodity's declared precision.
    pub fn redeclare(&mut self) -> bool {
        let c = self.rng.pick_str(COMMODITIES).to_string();
        let old = self.state.precision.get(&c).copied();
        let mut p = self.rng.below(5) as u32;
        if Some(p) == old {
            p = (p + 2) % 5;
        }
        self.ledger.entries.push(Entry::Commodity { name: c.clone(), precision: Some(p), aliases: vec![] });
        self.state.precision.insert(c, p);
        old.is_some()
    }

    fn value(&mut self, commodity: &str) -> Dec {
        let (m, s) = *self.rng.pick(VALUES);
        let mut d = Dec::new(m, s);
        if commodity == "JPY" && self.rng.chance(2, 3) {
            d = Dec::new(m * 10i128.pow(s.min(2)), 0);
        }
        if d.mant.abs() >= 1000 * 10i128.pow(d.scale) && self.rng.chance(1, 2) {
            d.grouped = true;
        }
        d
    }

    fn price(&mut self, own: &str) -> Amt {
        let (m, s) = *self.rng.pick(PRICES);
        let mut c = self.rng.pick_str(COMMODITIES).to_string();
        if c == own {
            c = COMMODITIES[(COMMODITIES.iter().position(|x| *x == own).unwrap() + 1) % COMMODITIES.len()].to_string();
        }
        let m = if self.rng.chance(self.profile.negative_price_pct, 100) { -m } else { m };
        Amt {
            num: Dec::new(m, s),
            commodity: c,
        }
    }

    fn amount_expr(&mut self, commodity: &str) -> AmountExpr {
        let v = self.value(commodity);
        if !self.rng.chance(self.profile.expr_pct, 100) {
            return AmountExpr::Lit(Amt {
                num: v,
                commodity: commodity.to_string(),
            });
        }
        let k = *self.rng.pick(&[2i128, 4, 5, 10, 3]);
        let w = self.value(commodity);
        let mut v_plain = v.clone();
        v_plain.grouped = false;
        // inside parentheses a leading '-' is the unary operator: same value either way.
        match self.rng.below(4) {
            0 => AmountExpr::Expr {
                text: format!("({} {} * {})", v_plain.text(), commodity, k),
                value: v.q().mul(Q::int(k)).unwrap(),
                commodity: commodity.to_string(),
            },
            1 => AmountExpr::Expr {
                text: format!("({} {} + {} {})", v_plain.text(), commodity, w.text().replace(',', ""), commodity),
                value: v.q().add(w.q()).unwrap(),
                commodity: commodity.to_string(),
            },
            2 => AmountExpr::Expr {
                text: format!("({} {} - {} {})", v_plain.text(), commodity, w.text().replace(',', ""), commodity),
                value: v.q().sub(w.q()).unwrap(),
                commodity: commodity.to_string(),
            },
            _ => {
                let k = *self.rng.pick(&[2i128, 4, 5, 10]);
                AmountExpr::Expr {
                    text: format!("({} {} / {})", v_plain.text(), commodity, k),
                    value: v.q().div(Q::int(k)).unwrap(),
                    commodity: commodity.to_string(),
                }
            }
        }
    }

    fn huge_posting(&mut self) -> Post {
        let account = self.rng.pick_str(ACCOUNTS).to_string();
        let commodity = self.rng.pick_str(COMMODITIES).to_string();
        let m = *self.rng.pick(&[1i128, 2, 5, 25, 7, -1, -3, -25]);
        // <= 2.5e19: with up to 6 decimals and ~40 additions every sum stays a 96-bit decimal
        let k = 12 + self.rng.below(7) as u32;
        let mut d = Dec::new(m * 10i128.pow(k), 0);
        d.grouped = self.rng.chance(1, 3);
        Post::simple(&account, Amt { num: d, commodity })
    }

    fn random_posting(&mut self) -> Post {
        if self.huge {
            return self.huge_posting();
        }
        let account = self.rng.pick_str(ACCOUNTS).to_string();
        let commodity = self.rng.pick_str(COMMODITIES).to_string();
        let mut p = Post {
            account,
            amount: Some(self.amount_expr(&commodity)),
            cost: None,
            lot: None,
            assertion: None,
        };
        if self.rng.chance(self.profile.cost_pct, 100) {
            let a = self.price(&commodity);
            p.cost = Some(if self.rng.chance(1, 2) { Price::Rate(a) } else { Price::Total(a) });
        }
        if self.rng.chance(self.profile.lot_pct, 100) && !(self.profile.exclusive_price && p.cost.is_some()) {
            let a = self.price(&commodity);
            p.lot = Some(if self.rng.chance(2, 3) { Price::Rate(a) } else { Price::Total(a) });
        }
        if self.rng.chance(1, 40) {
            // a posting that moves nothing: a commodity-less zero (legal; it may still carry an
            // assertion, and it is a posting like any other for the ones that follow)
            p.cost = None;
            p.lot = None;
            p.amount = Some(match self.rng.below(4) {
                0 => AmountExpr::Expr { text: "(0)".into(), value: Q::ZERO, commodity: String::new() },
                1 => AmountExpr::Expr { text: "(1 - 1)".into(), value: Q::ZERO, commodity: String::new() },
                2 => AmountExpr::Lit(Amt::new(0, 2, "")),
                _ => AmountExpr::Lit(Amt::new(0, 0, "")),
            });
        }
        if self.rng.chance(self.profile.invalid_pct, 100) {
            match self.rng.below(5) {
                0 => {
                    p.cost = Some(Price::Rate(Amt::new(0, 0, "EUR")));
                }
                1 => {
                    p.cost = Some(Price::Rate(Amt::new(2, 0, &commodity)));
                }
                2 => {
                    p.amount = Some(AmountExpr::Lit(Amt::new(5, 0, "")));
                }
                3 => {
                    p.lot = Some(Price::Total(Amt::new(0, 2, "EUR")));
                }
                _ => {
                    p.amount = Some(AmountExpr::Lit(Amt::new(0, 0, "")));
                    p.cost = Some(Price::Rate(Amt::new(2, 0, "EUR")));
                }
            }
        }
        p
    }

    /// Residual of `posts` by the model's valuation; None if a posting is ill-formed.
    fn residual(&self, posts: &[Post]) -> Option<Multi> {
        // run the model on a scratch state with an extra omitted posting: its inferred
        // amount is exactly minus the residual.
        let mut scratch = self.state.clone();
        let mut ps = posts.to_vec();
        ps.push(Post::omitted("Equity:Scratch"));
        let t = Txn {
            date: NaiveDate::from_ymd_opt(2024, 1, 1).unwrap(),
            effective: None,
            payee: "scratch".into(),
            posts: ps,
        };
        match book::apply_txn(&mut scratch, &t) {
            Outcome::MustAccept(a) => {
                let inferred = a.amounts.last()?.clone();
                Some(inferred.into_iter().map(|(c, v)| (c, v.neg())).collect())
            }
            _ => None,
        }
    }

    fn close(&mut self, posts: &mut Vec<Post>) -> &'static str {
        let strategy = self.rng.below(100);
        let omitted_cut = if self.profile.omitted_bias { 55 } else { 20 };
        if strategy < omitted_cut {
            let pos = self.rng.usize(posts.len() + 1);
            posts.insert(pos, Post::omitted(self.rng.pick_str(ACCOUNTS)));
            if self.rng.chance(1, 25) {
                let pos2 = self.rng.usize(posts.len() + 1);
                posts.insert(pos2, Post::omitted(self.rng.pick_str(ACCOUNTS)));
                return "two-omitted";
            }
            return "omitted";
        }
        if strategy < omitted_cut + 20 {
            return "left-as-generated";
        }
        let Some(res) = self.residual(posts) else { return "left-as-generated" };
        let nonzero: Vec<(String, Q)> = res.iter().filter(|(_, v)| !v.is_zero()).map(|(c, v)| (c.clone(), *v)).collect();
        let kind = self.rng.below(100);
        // which commodities to leave open
        let leave = if kind < 55 {
            0
        } else if kind < 75 {
            0 // balanced up to a rounding-boundary offset, see below
        } else if kind < 90 {
            2
        } else {
            1
        };
        let mut label = match leave {
            0 => "closed",
            1 => "leave-one",
            _ => "leave-two",
        };
        let mut todo = nonzero.clone();
        self.rng.shuffle(&mut todo);
        let keep = todo.len().saturating_sub(leave);
        for (c, v) in todo.into_iter().take(keep) {
            let mut target = v.neg();
            if (55..75).contains(&kind) {
                // off by a fraction of the unit of the commodity's declared precision
                let dp = self.state.precision.get(&c).copied().unwrap_or(2);
                let unit = Q::from_parts(1, dp).unwrap();
                let frac = *self.rng.pick(&[(1i128, 2i128), (-1, 2), (3, 2), (-3, 2), (5, 2), (2, 5), (3, 5), (-2, 5), (1, 1), (-1, 1)]);
                target = target.add(unit.mul(Q::new(frac.0, frac.1).unwrap()).unwrap()).unwrap();
                label = "closed-with-sub-unit-offset";
            }
            let Some(d) = finite(target) else { return "left-as-generated" };
            posts.push(Post::simple(
                self.rng.pick_str(ACCOUNTS),
                Amt {
                    num: d,
                    commodity: c,
                },
            ));
        }
        if self.rng.chance(1, 8) {
            // a commodity that nets to zero next to whatever is left
            let c = self.rng.pick_str(COMMODITIES).to_string();
            let v = self.value(&c);
            let mut w = v.clone();
            w.mant = -w.mant;
            posts.push(Post::simple(self.rng.pick_str(ACCOUNTS), Amt { num: v, commodity: c.clone() }));
            posts.push(Post::simple(self.rng.pick_str(ACCOUNTS), Amt { num: w, commodity: c }));
            if label == "closed" {
                label = "closed-with-zero-sum-commodity";
            }
        }
        label
    }

    fn next_date(&mut self) -> NaiveDate {
        self.day += self.rng.range(0, 3);
        NaiveDate::from_ymd_opt(2024, 1, 1).unwrap() + chrono::Duration::days(self.day)
    }

    /// Adds assertions / assignments to `posts` knowing the balances an accepted run produces.
    fn decorate(&mut self, posts: &mut Vec<Post>) -> Vec<&'static str> {
        let mut tags = Vec::new();
        // assignments first (they change amounts)
        if self.rng.chance(self.profile.assignment_pct * posts.len() as u64, 100) {
            let account = self.rng.pick_str(ACCOUNTS).to_string();
            let held: Vec<String> = self
                .state
                .balances
                .get(&account)
                .map(|m| m.keys().cloned().collect())
                .unwrap_or_default();
            let x = match self.rng.below(10) {
                0 | 1 => Amt::new(0, 0, ""),
                2 => Amt::new(0, 0, self.rng.pick_str(COMMODITIES)),
                _ => {
                    let c = if !held.is_empty() && self.rng.chance(2, 3) {
                        self.rng.pick(&held).to_string()
                    } else {
                        self.rng.pick_str(COMMODITIES).to_string()
                    };
                    Amt {
                        num: self.value(&c),
                        commodity: c,
                    }
                }
            };
            let pos = self.rng.usize(posts.len() + 1);
            posts.insert(
                pos,
                Post {
                    account,
                    amount: None,
                    cost: None,
                    lot: None,
                    assertion: Some(x),
                },
            );
            tags.push("assignment");
        }
        // assertions on postings with amounts: need the balances of an accepted run
        let mut scratch = self.state.clone();
        let t = Txn {
            date: NaiveDate::from_ymd_opt(2024, 1, 1).unwrap(),
            effective: None,
            payee: "scratch".into(),
            posts: posts.clone(),
        };
        let acc = match book::apply_txn(&mut scratch, &t) {
            Outcome::MustAccept(a) | Outcome::May(a) => a,
            _ => return tags,
        };
        for i in 0..posts.len() {
            if posts[i].amount.is_none() || !self.rng.chance(self.profile.assertion_pct, 100) {
                continue;
            }
            let variant = self.rng.below(100);
            let source = if variant < 12 && i > 0 {
                tags.push("assertion-true-before-posting");
                &acc.balances_before[i]
            } else {
                &acc.balances_after[i]
            };
            let x = if source.is_empty() {
                if self.rng.chance(1, 2) {
                    Amt::new(0, 0, "")
                } else {
                    Amt::new(0, 0, self.rng.pick_str(COMMODITIES))
                }
            } else {
                let keys: Vec<&String> = source.keys().collect();
                let c = (*self.rng.pick(&keys)).clone();
                match finite(source[&c]) {
                    Some(d) => Amt { num: d, commodity: c },
                    None => continue,
                }
            };
            let mut x = x;
            if (12..30).contains(&variant) && !x.commodity.is_empty() {
                // off by exactly one unit of the written precision
                x.num.mant += if self.rng.chance(1, 2) { 1 } else { -1 };
                tags.push("assertion-off-by-one-unit");
            } else if (30..36).contains(&variant) {
                // bare `= 0` whatever the account holds
                x = Amt::new(0, 0, "");
                tags.push("assertion-bare-zero");
            } else if (36..42).contains(&variant) {
                // a commodity the account does not hold
                let c = self.rng.pick_str(COMMODITIES).to_string();
                let v = if self.rng.chance(1, 2) { Dec::new(0, 0) } else { self.value(&c) };
                x = Amt { num: v, commodity: c };
                tags.push("assertion-other-commodity");
            } else {
                tags.push("assertion-from-model-balance");
            }
            posts[i].assertion = Some(x);
        }
        tags
    }

    /// Appends a fully written transaction that mixes a posting with an explicit cost (`q X @ r Z`)
    /// with an implied exchange in another pair: `a Y` against `-(q*r + b) Z` leaves `a Y` and `-b Z`
    /// open, i.e. states `a Y = b Z` on that day. Payee `IMPLIEDnQ`. Returns false if the model
    /// would not accept it.
    pub fn push_implied_exchange(&mut self) -> bool {
        let mut cs: Vec<&str> = COMMODITIES.to_vec();
        self.rng.shuffle(&mut cs);
        let (x, y, z) = (cs[0], cs[1], cs[2]);
        let q = 1 + self.rng.below(9) as i128;
        let r = 2 + self.rng.below(40) as i128;
        let a = 1 + self.rng.below(50) as i128;
        let b = 1 + self.rng.below(90) as i128;
        let posts = vec![
            Post { account: "Assets:Broker".into(), amount: Some(AmountExpr::Lit(Amt::new(q, 0, x))), cost: Some(Price::Rate(Amt::new(r, 0, z))), lot: None, assertion: None },
            Post::simple("Assets:Bank", Amt::new(a, 0, y)),
            Post::simple("Assets:Cash", Amt::new(-(q * r + b), 0, z)),
        ];
        let date = self.next_date();
        self.txn_counter += 1;
        let t = Txn { date, effective: None, payee: format!("IMPLIED{}Q", self.txn_counter), posts };
        let mut scratch = self.state.clone();
        match book::apply_txn(&mut scratch, &t) {
            Outcome::MustAccept(_) | Outcome::May(_) => {
                self.state = scratch;
                self.ledger.entries.push(Entry::Txn(t));
                true
            }
            _ => {
                self.txn_counter -= 1;
                false
            }
        }
    }

    /// Generates one transaction, appends it, and returns (closing label, decoration tags).
    pub fn push_txn(&mut self, good_only: bool) -> (&'static str, Vec<&'static str>) {
        let mut label;
        let mut tags;
        let mut tries = 0;
        loop {
            self.huge = self.rng.chance(self.profile.huge_pct, 100);
            let n = 1 + self.rng.usize(3);
            let mut posts: Vec<Post> = (0..n).map(|_| self.random_posting()).collect();
            label = if good_only {
                // history: always closed or inferred
                if self.rng.chance(1, 2) {
                    let pos = self.rng.usize(posts.len() + 1);
                    posts.insert(pos, Post::omitted(self.rng.pick_str(ACCOUNTS)));
                    "omitted"
                } else {
                    let mut l = "left-as-generated";
                    if let Some(res) = self.residual(&posts) {
                        let mut ok = true;
                        for (c, v) in res.iter().filter(|(_, v)| !v.is_zero()) {
                            match finite(v.neg()) {
                                Some(d) => posts.push(Post::simple(self.rng.pick_str(ACCOUNTS), Amt { num: d, commodity: c.clone() })),
                                None => ok = false,
                            }
                        }
                        if ok {
                            l = "closed";
                        }
                    }
                    l
                }
            } else {
                self.close(&mut posts)
            };
            tags = self.decorate(&mut posts);
            if self.huge {
                tags.push("huge-magnitudes");
            }
            self.huge = false;
            let date = self.next_date();
            self.txn_counter += 1;
            // one header in eight carries an effective date some days away from the transaction date
            let effective = if self.rng.chance(1, 8) { Some(date + chrono::Duration::days(self.rng.range(-15, 25))) } else { None };
            let t = Txn {
                date,
                effective,
                payee: format!("TXN{}Q", self.txn_counter),
                posts,
            };
            let mut scratch = self.state.clone();
            let o = book::apply_txn(&mut scratch, &t);
            tries += 1;
            if good_only && !matches!(o, Outcome::MustAccept(_)) && tries < 20 {
                self.txn_counter -= 1;
                continue;
            }
            let stop = !matches!(o, Outcome::MustAccept(_));
            self.state = scratch;
            self.ledger.entries.push(Entry::Txn(t));
            self.outcomes.push((self.ledger.entries.len() - 1, o));
            if stop {
                self.stopped = true;
            }
            break;
        }
        (label, tags)
    }
}

/// History of accepted transactions followed by one shaped transaction.
pub fn gen_case(rng: &mut Rng, profile: Profile) -> (Ledger, Vec<(usize, Outcome)>, State, Vec<String>) {
    let mut g = BookGen::new(rng, profile);
    g.declarations();
    let history = g.rng.usize(profile.max_history + 1);
    let mut labels: Vec<String> = Vec::new();
    for _ in 0..history {
        if g.stopped {
            break;
        }
        let (l, t) = g.push_txn(true);
        labels.push(format!("history:{}", l));
        for x in t {
            labels.push(format!("history:{}", x));
        }
    }
    if !g.stopped && g.rng.chance(1, 6) {
        labels.push(if g.redeclare() { "precision-redeclared".to_string() } else { "precision-declared-late".to_string() });
    }
    if !g.stopped {
        let (l, t) = g.push_txn(false);
        labels.push(format!("final:{}", l));
        for x in t {
            labels.push(format!("final:{}", x));
        }
    }
    // sometimes one more accepted transaction after a `May`/accepted final one
    if !g.stopped && g.rng.chance(1, 3) {
        let (l, _) = g.push_txn(true);
        labels.push(format!("after:{}", l));
    }
    (g.ledger, g.outcomes, g.state, labels)
}
