//! Generators shared by several checks.
