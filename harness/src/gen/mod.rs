//! Generators shared by several checks.
pub mod syntax;
pub mod bookgen;
pub mod ledger;
pub mod alias;
pub mod pricegen;
pub mod splitter;
