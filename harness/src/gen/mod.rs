//! Generators shared by several checks.
pub mod syntax;
