//! Generator of price scenarios (C09, C10, C13): a handful of commodities and dated price
//! events, each written either as one ledger transaction that yields exactly that event
//! (posting cost `@`, total cost `@@`, lot price `{}` / `{{}}`, implied two-commodity exchange)
//! or as a price-DB `P` line.

use chrono::NaiveDate;

use crate::gen::ledger::Dec;
use crate::model::price::{Event, Source};
use crate::model::q::Q;
use crate::rng::Rng;

pub const COMMODITIES: &[&str] = &["AAA", "BBB", "CCC", "DDD", "EEE"];

#[derive(Clone, Debug)]
pub struct PriceScenario {
    pub commodities: Vec<String>,
    pub events: Vec<Event>,
    /// how each event was written ("cost-rate", "cost-total", "lot-rate", "lot-total", "implied", "price-db")
    pub forms: Vec<&'static str>,
    /// ledger entries (one transaction per ledger-derived event), each newline-terminated, in file order
    pub ledger_entries: Vec<String>,
    pub price_db: String,
    pub dates: Vec<NaiveDate>,
    /// commodities declared in the ledger (the others are only known through the events that mention them)
    pub declared: Vec<String>,
    /// declared display formats (decimals): an implied exchange records the price of the residual
    /// as rounded to them
    pub formats: std::collections::BTreeMap<String, u32>,
}

const QTYS: &[(i128, u32)] = &[(1, 0), (2, 0), (10, 0), (3, 0), (5, 1), (100, 0), (4, 0), (25, 1)];
const RATES: &[(i128, u32)] = &[(15, 1), (2, 0), (8, 1), (110, 0), (91, 4), (3, 0), (125, 2), (7, 0), (1, 0), (4, 0), (5, 1)];

fn q_text(q: Q) -> Option<String> {
    let (m, s) = q.as_decimal_parts(12)?;
    Some(Dec::new(m, s).text())
}

impl PriceScenario {
    pub fn generate(rng: &mut Rng, price_db_pct: u64) -> PriceScenario {
        let n_comm = 3 + rng.usize(3);
        let commodities: Vec<String> = COMMODITIES.iter().take(n_comm).map(|s| s.to_string()).collect();
        let n_dates = 1 + rng.usize(6);
        let mut dates: Vec<NaiveDate> = Vec::new();
        let mut day = NaiveDate::from_ymd_opt(2024, 1, 10).unwrap();
        for _ in 0..n_dates {
            day += chrono::Duration::days(1 + rng.range(0, 12));
            dates.push(day);
        }
        let mut formats: std::collections::BTreeMap<String, u32> = std::collections::BTreeMap::new();
        for c in &commodities {
            if rng.chance(1, 3) {
                formats.insert(c.clone(), 2 + rng.below(3) as u32);
            }
        }
        let n_events = 3 + rng.usize(10);
        let mut events = Vec::new();
        let mut forms = Vec::new();
        let mut ledger_entries = Vec::new();
        let mut price_db = String::new();
        // running balance of Assets:Trade per commodity, so that a priced posting can also carry a
        // (true) balance assertion
        let mut held: std::collections::BTreeMap<String, Q> = std::collections::BTreeMap::new();
        for k in 0..n_events {
            let xi = rng.usize(n_comm);
            let mut yi = rng.usize(n_comm);
            if yi == xi {
                yi = (xi + 1) % n_comm;
            }
            // bias towards a sparse graph so that chains of 2-4 steps are needed
            if rng.chance(1, 2) {
                yi = (xi + 1) % n_comm;
            }
            let (x, y) = (commodities[xi].clone(), commodities[yi].clone());
            let date = *rng.pick(&dates);
            let (qm, qs) = *rng.pick(QTYS);
            let (rm, rs) = *rng.pick(RATES);
            let qty = Q::from_parts(qm, qs).unwrap();
            let rate = Q::from_parts(rm, rs).unwrap();
            let total = qty.mul(rate).unwrap();
            let neg = rng.chance(1, 4);
            let qty_txt = format!("{}{}", if neg { "-" } else { "" }, q_text(qty).unwrap());
            let d = date.format("%Y/%m/%d");
            let form: &'static str;
            if rng.chance(price_db_pct, 100) {
                form = "price-db";
                price_db.push_str(&format!("P {} {} {} {}\n", d, x, q_text(rate).unwrap(), y));
                events.push(Event { date, source: Source::PriceDb, x, qty_x: Q::ONE, y, qty_y: rate });
            } else {
                let mut kind = rng.below(5);
                // the two legs of an implied exchange as book-keeping sees them: rounded to the declared formats
                let round = |q: Q, c: &str| formats.get(c).and_then(|p| q.round_half_even(*p)).unwrap_or(q);
                let (iqty, itotal) = (round(qty, &x), round(total, &y));
                if kind == 4 && (iqty.is_zero() || itotal.is_zero()) {
                    kind = 0;
                }
                // a header may carry an effective date: the price still belongs to the transaction date
                let eff = if rng.chance(1, 4) { format!("={}", (date + chrono::Duration::days(rng.range(-9, 10))).format("%Y/%m/%d")) } else { String::new() };
                let head = format!("{}{} PRICE{}Q\n", d, eff, k + 1);
                let signed_qty = if neg { qty.neg() } else { qty };
                let after = held.get(&x).copied().unwrap_or(Q::ZERO).add(signed_qty).unwrap();
                held.insert(x.clone(), after);
                let assertion = if rng.chance(1, 4) { format!(" = {} {}", q_text(after).unwrap(), x) } else { String::new() };
                // a lot may carry its acquisition date: the price event still belongs to the day of the
                // transaction that records it
                let lot_date = if rng.chance(1, 3) { format!(" [{}]", (date - chrono::Duration::days(1 + rng.range(0, 40))).format("%Y/%m/%d")) } else { String::new() };
                let (body, ev) = match kind {
                    0 => (
                        format!("    Assets:Trade    {} {} @ {} {}{}\n    Equity:Trade\n", qty_txt, x, q_text(rate).unwrap(), y, assertion),
                        Event { date, source: Source::Ledger, x: x.clone(), qty_x: Q::ONE, y: y.clone(), qty_y: rate },
                    ),
                    1 => (
                        format!("    Assets:Trade    {} {} @@ {} {}{}\n    Equity:Trade\n", qty_txt, x, q_text(total).unwrap(), y, assertion),
                        Event { date, source: Source::Ledger, x: x.clone(), qty_x: qty, y: y.clone(), qty_y: total },
                    ),
                    2 => (
                        format!("    Assets:Trade    {} {} {{{} {}}}{}{}\n    Equity:Trade\n", qty_txt, x, q_text(rate).unwrap(), y, lot_date, assertion),
                        Event { date, source: Source::Ledger, x: x.clone(), qty_x: Q::ONE, y: y.clone(), qty_y: rate },
                    ),
                    3 => (
                        format!("    Assets:Trade    {} {} {{{{{} {}}}}}{}{}\n    Equity:Trade\n", qty_txt, x, q_text(total).unwrap(), y, lot_date, assertion),
                        Event { date, source: Source::Ledger, x: x.clone(), qty_x: qty, y: y.clone(), qty_y: total },
                    ),
                    _ => (
                        format!(
                            "    Assets:Trade    {} {}\n    Equity:Trade    {}{} {}\n",
                            qty_txt,
                            x,
                            if neg { "" } else { "-" },
                            q_text(total).unwrap(),
                            y
                        ),
                        Event { date, source: Source::Ledger, x: x.clone(), qty_x: iqty, y: y.clone(), qty_y: itotal },
                    ),
                };
                form = ["cost-rate", "cost-total", "lot-rate", "lot-total", "implied"][kind as usize];
                ledger_entries.push(format!("{}{}", head, body));
                events.push(ev);
            }
            forms.push(form);
        }
        let declared: Vec<String> = commodities.iter().filter(|c| formats.contains_key(*c) || rng.chance(1, 2)).cloned().collect();
        // price-DB lines with a zero rate say nothing: they neither give a price nor take one away
        if !price_db.is_empty() && rng.chance(1, 4) {
            for _ in 0..1 + rng.usize(2) {
                let (a, b) = (rng.usize(n_comm), rng.usize(n_comm));
                if a != b {
                    price_db.push_str(&format!("P {} {} 0 {}\n", rng.pick(&dates).format("%Y/%m/%d"), commodities[a], commodities[b]));
                }
            }
        }
        // price-DB lines in random order (a date-sorted or arbitrarily ordered file is equally valid)
        let mut lines: Vec<&str> = price_db.lines().collect();
        rng.shuffle(&mut lines);
        let price_db: String = lines.iter().map(|l| format!("{}\n", l)).collect();
        PriceScenario { commodities, events, forms, ledger_entries, price_db, dates, declared, formats }
    }

    /// `commodity X` declarations (so that every commodity is known even if only the price DB mentions it).
    pub fn declarations(&self) -> String {
        self.declared
            .iter()
            .map(|c| match self.formats.get(c) {
                Some(p) => format!("commodity {}\n    format 1,000.{} {}\n\n", c, "0".repeat(*p as usize), c),
                None => format!("commodity {}\n\n", c),
            })
            .collect()
    }

    pub fn ledger_text(&self) -> String {
        let mut s = self.declarations();
        for e in &self.ledger_entries {
            s.push_str(e);
            s.push('\n');
        }
        s
    }

    /// d-1, d, d+1 for every event date.
    pub fn query_dates(&self) -> Vec<NaiveDate> {
        let mut v = Vec::new();
        for d in &self.dates {
            for k in [-1i64, 0, 1] {
                let x = *d + chrono::Duration::days(k);
                if !v.contains(&x) {
                    v.push(x);
                }
            }
        }
        v.sort();
        v
    }
}
