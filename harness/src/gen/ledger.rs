//! Semantic ledger model shared by C01-C04, C09-C12 and C14: declarations, dated
//! transactions, postings with amounts / costs / lots / assertions. It is rendered to text by
//! its own printer (never okane's), which also reports the line range of every entry and
//! the line of every posting, so oracles can relate diagnostics to what was written.

use chrono::NaiveDate;

use crate::model::q::Q;

/// Decides how a canonical account / commodity name is written at one occurrence (used to
/// substitute declared aliases without touching the semantic model).
pub trait Namer {
    fn account(&mut self, canonical: &str) -> String;
    fn commodity(&mut self, canonical: &str) -> String;
}

pub struct Identity;

impl Namer for Identity {
    fn account(&mut self, canonical: &str) -> String {
        canonical.to_string()
    }
    fn commodity(&mut self, canonical: &str) -> String {
        canonical.to_string()
    }
}

/// A numeric literal as written.
#[derive(Clone, Debug, PartialEq)]
pub struct Dec {
    pub mant: i128,
    pub scale: u32,
    pub grouped: bool,
}

impl Dec {
    pub fn new(mant: i128, scale: u32) -> Dec {
        Dec {
            mant,
            scale,
            grouped: false,
        }
    }

    pub fn q(&self) -> Q {
        Q::from_parts(self.mant, self.scale).expect("literal fits")
    }

    pub fn is_zero(&self) -> bool {
        self.mant == 0
    }

    pub fn text(&self) -> String {
        let neg = self.mant < 0;
        let digits = format!("{:0>width$}", self.mant.unsigned_abs(), width = self.scale as usize + 1);
        let (int, frac) = digits.split_at(digits.len() - self.scale as usize);
        let mut out = String::new();
        if neg {
            out.push('-');
        }
        if self.grouped && int.len() > 3 {
            let first = int.len() % 3;
            let mut i = 0;
            if first > 0 {
                out.push_str(&int[..first]);
                i = first;
            }
            while i < int.len() {
                if i > 0 {
                    out.push(',');
                }
                out.push_str(&int[i..i + 3]);
                i += 3;
            }
        } else {
            out.push_str(int);
        }
        if self.scale > 0 {
            out.push('.');
            out.push_str(frac);
        }
        out
    }
}

/// `<number> <commodity>`; an empty commodity is a bare number.
#[derive(Clone, Debug, PartialEq)]
pub struct Amt {
    pub num: Dec,
    pub commodity: String,
}

impl Amt {
    pub fn new(mant: i128, scale: u32, commodity: &str) -> Amt {
        Amt {
            num: Dec::new(mant, scale),
            commodity: commodity.to_string(),
        }
    }
    pub fn text(&self) -> String {
        self.text_named(&mut Identity)
    }
    pub fn text_named(&self, namer: &mut dyn Namer) -> String {
        if self.commodity.is_empty() {
            self.num.text()
        } else {
            format!("{} {}", self.num.text(), namer.commodity(&self.commodity))
        }
    }
}

/// Written amount of a posting: a literal or a parenthesised expression whose value the
/// generator knows.
#[derive(Clone, Debug, PartialEq)]
pub enum AmountExpr {
    Lit(Amt),
    /// text (with parentheses), value, commodity ("" = bare number)
    Expr { text: String, value: Q, commodity: String },
}

impl AmountExpr {
    pub fn text(&self) -> String {
        match self {
            AmountExpr::Lit(a) => a.text(),
            AmountExpr::Expr { text, .. } => text.clone(),
        }
    }
    pub fn text_named(&self, namer: &mut dyn Namer) -> String {
        match self {
            AmountExpr::Lit(a) => a.text_named(namer),
            AmountExpr::Expr { text, commodity, .. } => {
                if commodity.is_empty() {
                    return text.clone();
                }
                // every occurrence of the commodity token inside the expression text
                let mut out = String::new();
                let mut rest = text.as_str();
                while let Some(p) = rest.find(commodity.as_str()) {
                    out.push_str(&rest[..p]);
                    out.push_str(&namer.commodity(commodity));
                    rest = &rest[p + commodity.len()..];
                }
                out.push_str(rest);
                out
            }
        }
    }
    pub fn value(&self) -> Q {
        match self {
            AmountExpr::Lit(a) => a.num.q(),
            AmountExpr::Expr { value, .. } => *value,
        }
    }
    pub fn commodity(&self) -> &str {
        match self {
            AmountExpr::Lit(a) => &a.commodity,
            AmountExpr::Expr { commodity, .. } => commodity,
        }
    }
}

#[derive(Clone, Debug, PartialEq)]
pub enum Price {
    Rate(Amt),
    Total(Amt),
}

impl Price {
    pub fn amt(&self) -> &Amt {
        match self {
            Price::Rate(a) | Price::Total(a) => a,
        }
    }
}

#[derive(Clone, Debug, PartialEq)]
pub struct Post {
    pub account: String,
    pub amount: Option<AmountExpr>,
    pub cost: Option<Price>,
    pub lot: Option<Price>,
    pub assertion: Option<Amt>,
}

impl Post {
    pub fn simple(account: &str, amt: Amt) -> Post {
        Post {
            account: account.to_string(),
            amount: Some(AmountExpr::Lit(amt)),
            cost: None,
            lot: None,
            assertion: None,
        }
    }
    pub fn omitted(account: &str) -> Post {
        Post {
            account: account.to_string(),
            amount: None,
            cost: None,
            lot: None,
            assertion: None,
        }
    }
    /// No amount and no assertion: its amount must be inferred from the siblings.
    pub fn is_unconstrained(&self) -> bool {
        self.amount.is_none() && self.assertion.is_none()
    }
    pub fn is_assignment(&self) -> bool {
        self.amount.is_none() && self.assertion.is_some()
    }
    pub fn text(&self) -> String {
        self.text_named(&mut Identity)
    }
    pub fn text_named(&self, namer: &mut dyn Namer) -> String {
        let mut s = format!("    {}", namer.account(&self.account));
        if let Some(a) = &self.amount {
            s.push_str("    ");
            s.push_str(&a.text_named(namer));
            if let Some(l) = &self.lot {
                match l {
                    Price::Rate(a) => s.push_str(&format!(" {{{}}}", a.text_named(namer))),
                    Price::Total(a) => s.push_str(&format!(" {{{{{}}}}}", a.text_named(namer))),
                }
            }
            if let Some(c) = &self.cost {
                match c {
                    Price::Rate(a) => s.push_str(&format!(" @ {}", a.text_named(namer))),
                    Price::Total(a) => s.push_str(&format!(" @@ {}", a.text_named(namer))),
                }
            }
        }
        if let Some(b) = &self.assertion {
            s.push_str(&format!("    = {}", b.text_named(namer)));
        }
        s
    }
}

#[derive(Clone, Debug, PartialEq)]
pub struct Txn {
    pub date: NaiveDate,
    /// `DATE=EFFECTIVE` header form; book-keeping and reports go by `date` alone
    pub effective: Option<NaiveDate>,
    /// Unique token identifying this transaction in diagnostics.
    pub payee: String,
    pub posts: Vec<Post>,
}

#[derive(Clone, Debug, PartialEq)]
pub enum Entry {
    Txn(Txn),
    Commodity {
        name: String,
        /// `format 1,000.00 X` with this many decimals.
        precision: Option<u32>,
        aliases: Vec<String>,
    },
    Account {
        name: String,
        aliases: Vec<String>,
    },
    Comment(String),
    /// Raw text (an `include` line, or deliberately invalid content), newline-terminated lines.
    Raw(String),
}

/// The `alias` sub-lines of a declaration; depending on the names a `note` line comes first or a
/// comment line sits between them (other sub-directives do not affect the aliases around them).
fn push_alias_lines(s: &mut String, name: &str, aliases: &[String]) {
    if aliases.is_empty() {
        return;
    }
    let style = (name.len() + aliases.iter().map(|a| a.len()).sum::<usize>()) % 3;
    if style == 1 {
        s.push_str("    note known under other names\n");
    }
    for (i, a) in aliases.iter().enumerate() {
        if style == 2 && i == aliases.len() / 2 {
            s.push_str("    ; also written as\n");
        }
        s.push_str(&format!("    alias {}\n", a));
    }
}

#[derive(Clone, Debug, PartialEq, Default)]
pub struct Ledger {
    pub entries: Vec<Entry>,
}

#[derive(Clone, Debug, Default)]
pub struct Rendered {
    pub text: String,
    /// 1-based (first line, last line) of every entry, parallel to `entries`.
    pub entry_lines: Vec<(usize, usize)>,
    /// For transactions: 1-based line of each posting.
    pub post_lines: Vec<Vec<usize>>,
    /// File holding each entry (empty = the single root file), when the ledger was cut into includes.
    pub entry_paths: Vec<String>,
}

pub fn entry_text(e: &Entry) -> (String, Vec<usize>) {
    entry_text_named(e, &mut Identity)
}

pub fn entry_text_named(e: &Entry, namer: &mut dyn Namer) -> (String, Vec<usize>) {
    // returns text (newline terminated) and posting line offsets (0-based within the entry)
    match e {
        Entry::Txn(t) => {
            let mut s = match t.effective {
                Some(e) => format!("{}={} {}\n", t.date.format("%Y/%m/%d"), e.format("%Y/%m/%d"), t.payee),
                None => format!("{} {}\n", t.date.format("%Y/%m/%d"), t.payee),
            };
            let mut lines = Vec::new();
            for (i, p) in t.posts.iter().enumerate() {
                lines.push(1 + i);
                s.push_str(&p.text_named(namer));
                s.push('\n');
            }
            (s, lines)
        }
        Entry::Commodity {
            name,
            precision,
            aliases,
        } => {
            let mut s = format!("commodity {}\n", name);
            if let Some(p) = precision {
                // the sample of a format may be written without the commodity (it is the declared one)
                let sym = if (name.len() + *p as usize) % 3 == 0 { String::new() } else { format!(" {}", name) };
                if *p == 0 {
                    s.push_str(&format!("    format 1,000{}\n", sym));
                } else {
                    s.push_str(&format!("    format 1,000.{}{}\n", "0".repeat(*p as usize), sym));
                }
            }
            push_alias_lines(&mut s, name, aliases);
            (s, vec![])
        }
        Entry::Account { name, aliases } => {
            let mut s = format!("account {}\n", name);
            push_alias_lines(&mut s, name, aliases);
            (s, vec![])
        }
        Entry::Comment(c) => (format!("; {}\n", c), vec![]),
        Entry::Raw(r) => (r.clone(), vec![]),
    }
}

impl Ledger {
    pub fn render(&self) -> Rendered {
        self.render_named(&mut Identity)
    }

    /// Renders with `namer` choosing the spelling of every account / commodity occurrence inside
    /// transactions (declarations always use the canonical name and list their aliases).
    pub fn render_named(&self, namer: &mut dyn Namer) -> Rendered {
        let mut out = Rendered::default();
        let mut line = 1usize;
        for e in &self.entries {
            let (t, posts) = entry_text_named(e, namer);
            let nlines = t.matches('\n').count();
            out.entry_lines.push((line, line + nlines.saturating_sub(1)));
            out.post_lines.push(posts.iter().map(|o| line + o).collect());
            out.text.push_str(&t);
            out.text.push('\n');
            line += nlines + 1;
        }
        out
    }

    pub fn text(&self) -> String {
        self.render().text
    }

    pub fn txns(&self) -> impl Iterator<Item = (usize, &Txn)> {
        self.entries.iter().enumerate().filter_map(|(i, e)| match e {
            Entry::Txn(t) => Some((i, t)),
            _ => None,
        })
    }
}
