//! Cuts a sequence of ledger entries into a tree of files connected by `include` lines
//! (C11, C14, C02): literal includes into the same directory, a sub-directory or the parent
//! directory, glob includes whose sorted match order is the intended order, with decoys that
//! must not match (dot-files, other extensions, deeper directories).

use std::collections::BTreeMap;

use crate::rng::Rng;

pub const DECOY_TEXT: &str = "THIS FILE MUST NOT BE LOADED (\n";
/// Stands for the absolute path of the tree's base directory inside include lines.
pub const BASE_TOKEN: &str = "@@BASE@@";

#[derive(Clone, Debug, Default)]
pub struct Tree {
    /// path relative to the tree base (e.g. "top/main.ledger") -> content
    pub files: BTreeMap<String, String>,
    pub root: String,
    /// for every original entry, in order: the file it was placed in
    pub placement: Vec<String>,
    /// 1-based line of the first line of every original entry inside its file
    pub entry_line: Vec<usize>,
    pub features: Vec<&'static str>,
    counter: usize,
}

fn dir_of(path: &str) -> String {
    match path.rfind('/') {
        Some(p) => path[..p].to_string(),
        None => String::new(),
    }
}

fn join(dir: &str, name: &str) -> String {
    if dir.is_empty() {
        name.to_string()
    } else {
        format!("{}/{}", dir, name)
    }
}

/// `to` spelled relative to the directory of `from`.
pub fn relative(from: &str, to: &str) -> String {
    let fd = dir_of(from);
    let from_dir: Vec<&str> = if fd.is_empty() { vec![] } else { fd.split('/').collect() };
    let to_parts: Vec<&str> = to.split('/').collect();
    let mut common = 0;
    while common < from_dir.len() && common + 1 < to_parts.len() && from_dir[common] == to_parts[common] {
        common += 1;
    }
    let mut rel: Vec<String> = Vec::new();
    for _ in common..from_dir.len() {
        rel.push("..".into());
    }
    for p in &to_parts[common..] {
        rel.push(p.to_string());
    }
    rel.join("/")
}

/// Directory names of the form `d[NN]` are literal names: in an include line (a pattern) their `[`
/// is written `[[]`.
fn esc(spelled: &str) -> String {
    spelled.replace("d[", "d[[]")
}

impl Tree {
    fn feature(&mut self, f: &'static str) {
        if !self.features.contains(&f) {
            self.features.push(f);
        }
    }

    fn fresh(&mut self) -> usize {
        self.counter += 1;
        self.counter
    }

    fn append(&mut self, file: &str, text: &str) {
        self.files.entry(file.to_string()).or_default().push_str(text);
    }

    fn line_count(&self, file: &str) -> usize {
        self.files.get(file).map(|c| c.matches('\n').count()).unwrap_or(0)
    }

    /// Places `entries[lo..hi]` into `file` (creating children as it goes).
    fn build(&mut self, rng: &mut Rng, entries: &[String], lo: usize, hi: usize, file: &str, depth: usize, in_glob_dir: bool) {
        self.files.entry(file.to_string()).or_default();
        let mut i = lo;
        while i < hi {
            let remaining = hi - i;
            let split = depth < 3 && remaining >= 1 && rng.chance(if depth == 0 { 45 } else { 30 }, 100);
            if !split {
                self.placement[i] = file.to_string();
                self.entry_line[i] = self.line_count(file) + 1;
                let t = format!("{}\n", entries[i]);
                self.append(file, &t);
                i += 1;
                continue;
            }
            let k = 1 + rng.usize(remaining.min(4));
            let dir = dir_of(file);
            let n = self.fresh();
            // inside a directory covered by a glob, further files may only go into sub-directories
            // (a sibling or a file reached through `..` could match the enclosing pattern as well)
            let mut choice = rng.below(7);
            if in_glob_dir && matches!(choice, 0 | 2 | 3 | 6) {
                choice = 1;
            }
            match choice {
                0 => {
                    // literal include, same directory
                    // (a file whose name starts with a dot can be included by naming it)
                    let dot = rng.chance(1, 5);
                    let child = join(&dir, &format!("{}p{:02}.ledger", if dot { "." } else { "" }, n));
                    self.feature(if dot { "literal-dot-file" } else { "literal-same-dir" });
                    self.append(file, &format!("include {}\n\n", esc(&relative(file, &child))));
                    self.build(rng, entries, i, i + k, &child, depth + 1, in_glob_dir);
                }
                1 => {
                    // literal include into a sub-directory (name with a space now and then)
                    // a directory name may contain characters that are special in a pattern; the include
                    // that names it escapes them (`[[]`), and includes written *inside* such a directory
                    // are relative to it as it is
                    let sub = match rng.below(8) {
                        0 | 1 => format!("d {:02}", n),
                        2 => format!("d[{:02}]", n),
                        _ => format!("d{:02}", n),
                    };
                    let dot = rng.chance(1, 6);
                    let child = join(&join(&dir, &sub), &format!("{}p{:02}.ledger", if dot { "." } else { "" }, n));
                    self.feature(if dot { "literal-dot-file-in-sub-dir" } else { "literal-sub-dir" });
                    if sub.contains('[') {
                        self.feature("directory-name-with-pattern-characters");
                    }
                    // (only the part below the including file's directory is written, so only this
                    // directory name needs escaping here)
                    self.append(file, &format!("include {}\n\n", esc(&relative(file, &child))));
                    self.build(rng, entries, i, i + k, &child, depth + 1, in_glob_dir);
                }
                2 if !dir.is_empty() => {
                    // literal include through the parent directory
                    let parent = dir_of(&dir);
                    let child = if rng.chance(1, 2) { join(&parent, &format!("u{:02}.ledger", n)) } else { join(&join(&parent, &format!("s{:02}", n)), "x.ledger") };
                    self.feature("literal-parent-dir");
                    self.append(file, &format!("include {}\n\n", esc(&relative(file, &child))));
                    self.build(rng, entries, i, i + k, &child, depth + 1, in_glob_dir);
                }
                3 => {
                    // `./`-prefixed or detour spelling
                    let child = join(&dir, &format!("q{:02}.ledger", n));
                    let own = dir.rsplit('/').next().unwrap_or("");
                    let spelled = if !own.is_empty() && rng.chance(1, 2) {
                        self.feature("literal-detour-through-parent");
                        format!("../{}/{}", own, relative(file, &child))
                    } else {
                        self.feature("literal-dot-slash");
                        format!("./{}", relative(file, &child))
                    };
                    self.append(file, &format!("include {}\n\n", esc(&spelled)));
                    self.build(rng, entries, i, i + k, &child, depth + 1, in_glob_dir);
                }
                6 => {
                    // include written with an absolute path (the base directory is filled in when the
                    // tree is materialised)
                    let child = join(&dir, &format!("abs{:02}.ledger", n));
                    self.feature("literal-absolute-path");
                    self.append(file, &format!("include {}/{}\n\n", BASE_TOKEN, esc(&child)));
                    self.build(rng, entries, i, i + k, &child, depth + 1, in_glob_dir);
                }
                4 => {
                    // glob over files of one fresh directory: sorted names give the order
                    let gdir = join(&dir, &format!("g{:02}", n));
                    let m = 1 + rng.usize(k.min(3));
                    let pattern_kind = rng.below(3);
                    let mut cut = i;
                    for j in 0..m {
                        let take = if j + 1 == m { i + k - cut } else { 1.max((i + k - cut) / (m - j)) };
                        // names chosen so that byte-wise sort == intended order, including 2 vs 10 traps
                        // the last file of a `*.ledger` directory may bear the name of the including
                        // file (another directory, another file)
                        let own = file.rsplit('/').next().unwrap_or("");
                        let name = match pattern_kind {
                            0 if j + 1 == m && own.as_bytes().first().map(|b| b.is_ascii_alphabetic()).unwrap_or(false) && own.ends_with(".ledger") && rng.chance(1, 3) => {
                                self.feature("glob-match-named-like-includer");
                                own.to_string()
                            }
                            0 => format!("{:02}.ledger", j * 9 + 1),
                            1 => format!("a{}b.ledger", (b'a' + j as u8) as char),
                            _ => format!("part-{}.ledger", ["A", "B", "a"][j]),
                        };
                        let child = join(&gdir, &name);
                        self.build(rng, entries, cut, cut + take, &child, depth + 1, true);
                        cut += take;
                    }
                    let pat = match pattern_kind {
                        0 => "*.ledger".to_string(),
                        1 => "a?b.ledger".to_string(),
                        _ => "part-[A-Za-z].ledger".to_string(),
                    };
                    self.feature(["glob-star", "glob-question", "glob-class"][pattern_kind as usize]);
                    // decoys that the pattern must not pick up
                    if rng.chance(2, 3) {
                        self.feature("decoys");
                        self.files.insert(join(&gdir, ".hidden.ledger"), DECOY_TEXT.to_string());
                        self.files.insert(join(&gdir, "notes.ledger.bak"), DECOY_TEXT.to_string());
                        self.files.insert(join(&join(&gdir, "deeper"), "inner.ledger"), DECOY_TEXT.to_string());
                        if pattern_kind == 1 {
                            self.files.insert(join(&gdir, "axxb.ledger"), DECOY_TEXT.to_string());
                        }
                        // names that match only when letter case is ignored
                        for name in match pattern_kind {
                            0 => ["00.LEDGER", "zz.Ledger"],
                            1 => ["AcB.ledger", "azb.LEDGER"],
                            _ => ["PART-A.ledger", "part-B.Ledger"],
                        } {
                            self.files.insert(join(&gdir, name), DECOY_TEXT.to_string());
                        }
                    }
                    self.append(file, &format!("include {}\n\n", esc(&relative(file, &join(&gdir, &pat)))));
                }
                _ => {
                    // glob with the wildcard in a directory component: directories sort one way,
                    // file names the other way
                    let gdir = join(&dir, &format!("y{:02}", n));
                    let m = 1 + rng.usize(k.min(3));
                    let mut cut = i;
                    // directory names one of which is a prefix of the next, continued by a byte below
                    // '/': paths sort component by component ("2024" < "2024-adj" < "2024.old"),
                    // not as strings
                    let prefix_names = rng.chance(1, 3);
                    for j in 0..m {
                        let take = if j + 1 == m { i + k - cut } else { 1.max((i + k - cut) / (m - j)) };
                        let dname = if prefix_names { ["2024", "2024-adj", "2024.old"][j].to_string() } else { format!("20{:02}", 21 + j) };
                        let child = join(&join(&gdir, &dname), &format!("{:02}.ledger", 12 - j * 5));
                        self.build(rng, entries, cut, cut + take, &child, depth + 1, true);
                        cut += take;
                    }
                    self.feature("glob-in-directory-component");
                    if rng.chance(1, 2) {
                        self.feature("decoys");
                        self.files.insert(join(&join(&gdir, ".2020"), "01.ledger"), DECOY_TEXT.to_string());
                        self.files.insert(join(&gdir, "00.ledger"), DECOY_TEXT.to_string());
                        self.files.insert(join(&join(&gdir, if prefix_names { "2024" } else { "2021" }), "99.LEDGER"), DECOY_TEXT.to_string());
                    }
                    if prefix_names {
                        self.feature("glob-directories-prefix-of-each-other");
                    }
                    let pat = if prefix_names {
                        if rng.chance(1, 2) { "*/*.ledger" } else { "2024*/*.ledger" }
                    } else if rng.chance(1, 2) {
                        "*/*.ledger"
                    } else {
                        "20??/*.ledger"
                    };
                    self.append(file, &format!("include {}\n\n", esc(&relative(file, &join(&gdir, pat)))));
                }
            }
            i += k;
        }
    }

    /// `entries`: text of each entry (newline-terminated lines, no trailing blank line).
    pub fn split(rng: &mut Rng, entries: &[String]) -> Tree {
        let mut t = Tree { root: "top/main.ledger".to_string(), placement: vec![String::new(); entries.len()], entry_line: vec![0; entries.len()], ..Default::default() };
        let root = t.root.clone();
        t.build(rng, entries, 0, entries.len(), &root, 0, false);
        // a file may end with its last line, an include among them, without a final newline
        let names: Vec<String> = t.files.keys().cloned().collect();
        for name in names {
            let c = t.files.get_mut(&name).unwrap();
            if c.trim_end().lines().last().map(|l| l.starts_with("include ")).unwrap_or(false) && rng.chance(1, 3) {
                *c = c.trim_end().to_string();
                t.feature("include-line-ended-by-end-of-file");
            }
        }
        t
    }

    /// Two occurrences of the same one-line entry are moved into one shared file that is then
    /// included from both places (a diamond: the same file reached twice without any cycle).
    pub fn share_duplicate(&mut self, entries: &[String], text: &str) -> bool {
        let ks: Vec<usize> = entries.iter().enumerate().filter(|(_, e)| e.as_str() == text).map(|(k, _)| k).collect();
        if ks.len() < 2 || text.matches('\n').count() != 1 {
            return false;
        }
        let shared = "shared/common.ledger".to_string();
        for k in &ks {
            let file = self.placement[*k].clone();
            let inc = format!("include {}\n", esc(&relative(&file, &shared)));
            let Some(content) = self.files.get_mut(&file) else { return false };
            // same number of lines, so the line numbers of the other entries do not move
            *content = content.replacen(text, &inc, 1);
            self.placement[*k] = shared.clone();
            self.entry_line[*k] = 1;
        }
        self.files.insert(shared, format!("{}\n", text));
        self.feature("same-file-included-twice");
        true
    }

    /// Puts an include of a zero-byte file in front of `n` random files.
    pub fn include_empty_files(&mut self, rng: &mut Rng, n: usize) {
        let candidates: Vec<String> = self.placement.iter().cloned().collect::<std::collections::BTreeSet<_>>().into_iter().collect();
        if candidates.is_empty() {
            return;
        }
        for i in 0..n {
            let file = rng.pick(&candidates).clone();
            // in a directory of its own, so that a loader that loses track of "the including file"
            // after it resolves later includes against the wrong directory
            let empty = join(&join(&dir_of(&file), &format!("e{}", i)), "empty.ledger");
            if self.files.contains_key(&empty) {
                continue;
            }
            // a file inside a glob directory must not add a sibling that the pattern would match
            if dir_of(&file).rsplit('/').next().map(|d| d.starts_with('g') || d.starts_with("20")).unwrap_or(false) {
                continue;
            }
            self.files.insert(empty.clone(), if rng.chance(1, 2) { String::new() } else { "\n  \n\t\n".to_string() });
            let content = self.files.get_mut(&file).unwrap();
            *content = format!("include {}\n\n{}", esc(&relative(&file, &empty)), content);
            for k in 0..self.placement.len() {
                if self.placement[k] == file {
                    self.entry_line[k] += 2;
                }
            }
            self.feature("include-of-empty-file");
        }
    }

    pub fn as_fake(&self, base: &str) -> Vec<(String, String)> {
        self.files.iter().map(|(p, c)| (format!("{}/{}", base, p), c.replace(BASE_TOKEN, base))).collect()
    }

    /// The same tree with *relative* keys (`top/main.ledger`): files that end up at the top level
    /// then have an empty parent directory. Only usable when no include is spelled absolutely.
    pub fn as_fake_relative(&self) -> Option<Vec<(String, String)>> {
        if self.files.values().any(|c| c.contains(BASE_TOKEN)) {
            return None;
        }
        Some(self.files.iter().map(|(p, c)| (p.clone(), c.clone())).collect())
    }

    pub fn write_real(&self, base: &std::path::Path) -> std::io::Result<()> {
        for (p, c) in &self.files {
            let full = base.join(p);
            if let Some(parent) = full.parent() {
                std::fs::create_dir_all(parent)?;
            }
            std::fs::write(full, c.replace(BASE_TOKEN, &base.to_string_lossy()))?;
        }
        Ok(())
    }
}
