//! Black-box runner for the real `okane` binary: scrubbed environment, CPU/memory limits,
//! exit status or signal, stdout and stderr captured.

use std::os::unix::process::{CommandExt, ExitStatusExt};
use std::path::Path;
use std::process::{Command, Stdio};

#[derive(Debug, Clone)]
pub struct CliResult {
    pub code: Option<i32>,
    pub signal: Option<i32>,
    pub stdout: String,
    pub stderr: String,
}

impl CliResult {
    pub fn ok(&self) -> bool {
        self.code == Some(0)
    }
    /// Exit status class: "ok", "error" (exit 1), "usage" (exit 2), "panic" (exit 101),
    /// "signal:<n>", "other:<n>".
    pub fn class(&self) -> String {
        match (self.code, self.signal) {
            (Some(0), _) => "ok".into(),
            (Some(1), _) => "error".into(),
            (Some(2), _) => "usage".into(),
            (Some(101), _) => "panic".into(),
            (Some(n), _) => format!("other:{}", n),
            (None, Some(s)) => format!("signal:{}", s),
            (None, None) => "unknown".into(),
        }
    }
}

pub fn strip_ansi(s: &str) -> String {
    let mut out = String::with_capacity(s.len());
    let mut chars = s.chars().peekable();
    while let Some(c) = chars.next() {
        if c == '\u{1b}' {
            if chars.peek() == Some(&'[') {
                chars.next();
                for d in chars.by_ref() {
                    if d.is_ascii_alphabetic() {
                        break;
                    }
                }
            }
        } else {
            out.push(c);
        }
    }
    out
}

pub fn run_okane_env(bin: &Path, args: &[&str], cwd: &Path, extra_env: &[(&str, &str)]) -> std::io::Result<CliResult> {
    let mut cmd = Command::new(bin);
    cmd.args(args)
        .current_dir(cwd)
        .stdin(Stdio::null())
        .stdout(Stdio::piped())
        .stderr(Stdio::piped())
        .env_clear()
        .env("PATH", "/usr/bin:/bin")
        .env("LANG", "C.UTF-8")
        .env("LC_ALL", "C.UTF-8")
        .env("TZ", "UTC")
        .env("RUST_BACKTRACE", "0");
    for (k, v) in extra_env {
        cmd.env(k, v);
    }
    unsafe {
        cmd.pre_exec(|| {
            let cpu = libc::rlimit {
                rlim_cur: 10,
                rlim_max: 12,
            };
            libc::setrlimit(libc::RLIMIT_CPU, &cpu);
            let mem = libc::rlimit {
                rlim_cur: 4 << 30,
                rlim_max: 4 << 30,
            };
            libc::setrlimit(libc::RLIMIT_AS, &mem);
            // the worker's per-case profiling timer is not inherited across exec, but be explicit.
            let tv: crate::engine::ITimerVal = std::mem::zeroed();
            crate::engine::setitimer(crate::engine::ITIMER_PROF, &tv, std::ptr::null_mut());
            Ok(())
        });
    }
    let out = cmd.output()?;
    Ok(CliResult {
        code: out.status.code(),
        signal: out.status.signal(),
        stdout: String::from_utf8_lossy(&out.stdout).into_owned(),
        stderr: strip_ansi(&String::from_utf8_lossy(&out.stderr)),
    })
}

pub fn run_okane(bin: &Path, args: &[&str], cwd: &Path) -> std::io::Result<CliResult> {
    run_okane_env(bin, args, cwd, &[])
}
