//! C11 — includes expand in place, in order; splitting a ledger changes nothing.

use std::path::Path;

use okane_core::load::{LoadError, Loader};
use okane_core::syntax;
use serde_json::json;

use crate::checks::book::{run_code, CodeLedger};
use crate::cli;
use crate::engine::{guarded, Check, Ctx, Recorder, Tier};
use crate::gen::bookgen::{self, BookGen};
use crate::gen::ledger::{entry_text, Ledger};
use crate::gen::splitter::Tree;
use crate::ops;
use crate::rng::Rng;

pub struct C11;

const BASE: &str = "/mem/t";

pub fn gen_ordered_ledger(rng: &mut Rng, min_txn: usize, max_txn: usize) -> Option<Ledger> {
    let mut g = BookGen::new(rng, bookgen::P_ASSERT);
    g.declarations();
    let n = min_txn + g.rng.usize(max_txn - min_txn + 1);
    for _ in 0..n {
        if g.stopped {
            return None;
        }
        g.push_txn(true);
    }
    if g.stopped {
        return None;
    }
    Some(g.ledger)
}

/// (canonical path, entry source text, 1-based first line) per delivered entry
type Delivered = Vec<(String, String, usize)>;

fn collect<F: okane_core::load::FileSystem>(loader: Loader<F>) -> Result<Delivered, String> {
    let mut out: Delivered = Vec::new();
    let r: Result<(), LoadError> = loader.load(|path: &Path, pctx, entry: &syntax::plain::LedgerEntry| {
        let kind_include = matches!(entry, syntax::LedgerEntry::Include(_));
        let text = if kind_include { format!("<<include delivered>> {}", pctx.as_str()) } else { pctx.as_str().to_string() };
        out.push((path.to_string_lossy().into_owned(), text, pctx.compute_line_start()));
        Ok(())
    });
    match r {
        Ok(()) => Ok(out),
        Err(e) => Err(ops::render_error(&e)),
    }
}

fn norm(s: &str) -> String {
    s.trim_end().to_string()
}

fn same_reports(a: &CodeLedger, b: &CodeLedger) -> bool {
    a.txns == b.txns && a.balances == b.balances
}

impl Check for C11 {
    fn id(&self) -> &'static str {
        "C11"
    }
    fn cases(&self, tier: Tier) -> u64 {
        tier.pick(12_000, 250_000)
    }
    fn run(&self, ctx: &Ctx, idx: u64, rec: &mut Recorder) {
        let mut rng = Rng::for_case(ctx.seed, "C11", idx);
        let Some(ledger) = gen_ordered_ledger(&mut rng, 2, 10) else {
            rec.skip();
            return;
        };
        let mut entries: Vec<String> = ledger.entries.iter().map(|e| entry_text(e).0).collect();
        // a third of the ledgers carry the same one-line entry twice; it is later moved into one
        // shared file included from both places
        const SHARED: &str = "; standing note kept in a shared file\n";
        let share = rng.chance(1, 3);
        if share {
            for _ in 0..2 {
                let pos = rng.usize(entries.len() + 1);
                entries.insert(pos, SHARED.to_string());
            }
        }
        let whole: String = entries.iter().map(|e| format!("{}\n", e)).collect();
        let mut tree = Tree::split(&mut rng, &entries);
        if share {
            tree.share_duplicate(&entries, SHARED);
        }
        if rng.chance(1, 3) {
            let n = 1 + rng.usize(2);
            tree.include_empty_files(&mut rng, n);
        }
        // one tree in ten carries an include that matches nothing
        let nomatch = if rng.chance(1, 10) {
            let victim = rng.pick(&tree.files.keys().filter(|k| !tree.files[*k].starts_with("THIS FILE")).cloned().collect::<Vec<_>>()).clone();
            let pat = *rng.pick(&["missing.ledger", "nowhere/*.ledger", "*.leger", "?.ledger.bak", "zz??/*.ledger"]);
            // also: a pattern whose only candidates are a dot-file and a deeper file
            let (pat, extra): (String, Option<(String, String)>) = if rng.chance(1, 3) {
                let d = format!("{}/onlyhidden{}", victim.rsplit_once('/').map(|x| x.0).unwrap_or(""), idx % 97);
                (
                    format!("{}/*.ledger", d.rsplit('/').next().unwrap()),
                    Some((format!("{}/.secret.ledger", d), crate::gen::splitter::DECOY_TEXT.to_string())),
                )
            } else {
                (pat.to_string(), None)
            };
            if let Some((p, c)) = extra {
                tree.files.insert(p.clone(), c.clone());
                tree.files.insert(p.replace(".secret.ledger", "deep/in.ledger"), c);
            }
            let content = tree.files.get_mut(&victim).unwrap();
            if rng.chance(1, 2) {
                content.push_str(&format!("include {}\n\n", pat));
            } else {
                *content = format!("include {}\n\n{}", pat, content);
            }
            Some(pat)
        } else {
            None
        };
        for f in &tree.features {
            rec.count(&format!("tree:{}", f));
        }
        rec.count_n("tree-files", tree.files.len() as u64);
        let fake_files = tree.as_fake(BASE);
        let root = format!("{}/{}", BASE, tree.root);
        let joined: String = fake_files.iter().map(|(p, c)| format!("=== {}\n{}", p, c)).collect();
        let wit = |extra: serde_json::Value| json!({"files": fake_files.iter().map(|(p, c)| json!({"path": p, "content": c})).collect::<Vec<_>>(), "unsplit": whole, "detail": extra});
        let feats = tree.features.join("+");

        // ---- in-memory file system
        rec.op("Loader::load (fake fs)", &joined);
        let Some(fake_seq) = guarded(rec, || collect(ops::fake_loader(&fake_files, &root))) else { return };
        // ---- in-memory file system again, with relative keys and a relative root path
        if let (Some(rel_files), None) = (tree.as_fake_relative(), &nomatch) {
            rec.op("Loader::load (fake fs, relative paths)", &joined);
            let root_rel = tree.root.clone();
            if let Some(seq) = guarded(rec, || collect(ops::fake_loader(&rel_files, &root_rel))) {
                match seq {
                    Err(e) => {
                        rec.violation("split-ledger-fails-to-load", &format!("fake-fs-relative|{}", feats), &format!("loading the split tree from relative paths failed: {}", e.lines().next().unwrap_or("")), wit(json!({"error": e, "root": root_rel})));
                        return;
                    }
                    Ok(seq) => {
                        let texts: Vec<String> = seq.iter().map(|x| norm(&x.1)).collect();
                        let want: Vec<String> = entries.iter().map(|e| norm(e)).collect();
                        if texts != want {
                            rec.violation("delivery-order-differs", &format!("fake-fs-relative|{}", feats), "entries delivered from relative paths differ from the written sequence", wit(json!({"root": root_rel})));
                            return;
                        }
                        rec.count("fake-fs-relative:sequence-agrees");
                    }
                }
            }
        }
        // ---- real file system
        let dir = ctx.scratch.join(format!("c11-{}", idx));
        let _ = std::fs::remove_dir_all(&dir);
        if tree.write_real(&dir).is_err() {
            rec.skip();
            return;
        }
        let real_root = dir.join(&tree.root);
        rec.op("Loader::load (real fs)", &joined);
        let Some(real_seq) = guarded(rec, || collect(ops::real_loader(&real_root))) else {
            let _ = std::fs::remove_dir_all(&dir);
            return;
        };
        rec.nontrivial(&joined);
        let canon_dir = std::fs::canonicalize(&dir).unwrap_or(dir.clone());
        let mut violated = false;
        for (fs_name, seq, prefix) in [("fake-fs", &fake_seq, BASE.to_string()), ("real-fs", &real_seq, canon_dir.to_string_lossy().into_owned())] {
            if violated {
                break;
            }
            match (seq, &nomatch) {
                (Err(_), Some(_)) => rec.count(&format!("{}:no-match-include-rejected", fs_name)),
                (Ok(_), Some(pat)) => {
                    rec.violation("no-match-include-accepted", &format!("{}|pattern={}", fs_name, pat.chars().filter(|c| "*?[".contains(*c)).collect::<String>()), &format!("`include {}` matches no file, yet loading succeeded on the {}", pat, fs_name), wit(json!({"pattern": pat})));
                    violated = true;
                }
                (Err(e), None) => {
                    rec.violation("split-ledger-fails-to-load", &format!("{}|{}", fs_name, feats), &format!("loading the split tree failed on the {}: {}", fs_name, e.lines().next().unwrap_or("")), wit(json!({"error": e})));
                    violated = true;
                }
                (Ok(seq), None) => {
                    if seq.len() != entries.len() {
                        let what = if let Some(x) = seq.iter().find(|x| x.1.starts_with("<<include delivered>>")) { format!("an include line was delivered as an entry: {}", x.1) } else { format!("{} entries delivered, {} written", seq.len(), entries.len()) };
                        rec.violation("delivered-entry-count-differs", &format!("{}|{}", fs_name, feats), &what, wit(json!({"delivered": seq.iter().map(|x| (&x.0, &x.1)).collect::<Vec<_>>() })));
                        violated = true;
                        continue;
                    }
                    for (k, (path, text, line)) in seq.iter().enumerate() {
                        let want_path = format!("{}/{}", prefix, tree.placement[k]);
                        if norm(text) != norm(&entries[k]) {
                            rec.violation("delivery-order-differs", &format!("{}|{}", fs_name, feats), &format!("entry {} delivered on the {} is not the {}th written entry (order of includes / glob matches)", k + 1, fs_name, k + 1), wit(json!({"position": k, "delivered": text, "expected": entries[k]})));
                            violated = true;
                            break;
                        }
                        // Path equality (a `.` component is not a difference), not string equality
                        if Path::new(path) != Path::new(&want_path) {
                            rec.violation("delivered-path-differs", &format!("{}|{}", fs_name, feats), &format!("entry {} delivered with path {}, it lives in {}", k + 1, path, want_path), wit(json!({"position": k})));
                            violated = true;
                            break;
                        }
                        if *line != tree.entry_line[k] {
                            rec.violation("delivered-line-differs", &format!("{}|{}", fs_name, feats), &format!("entry {} starts on line {} of {}, reported line {}", k + 1, tree.entry_line[k], want_path, line), wit(json!({"position": k})));
                            violated = true;
                            break;
                        }
                    }
                    if !violated {
                        rec.count(&format!("{}:sequence-agrees", fs_name));
                    }
                }
            }
        }
        // ---- real file system once more, with the first match of a glob directory turned into a
        // symbolic link whose target lives elsewhere (and sorts last): matches are visited in the
        // order of the names that matched, not of what they point to
        if !violated && nomatch.is_none() && rng.chance(1, 3) {
            let mut by_dir: std::collections::BTreeMap<String, Vec<String>> = std::collections::BTreeMap::new();
            for (p, c) in tree.files.iter() {
                let d = p.rsplit_once('/').map(|x| x.0.to_string()).unwrap_or_default();
                let leaf_dir = d.rsplit('/').next().unwrap_or("");
                let in_glob_dir = (leaf_dir.starts_with('g') || leaf_dir.starts_with("20")) && leaf_dir.len() >= 3;
                let name = p.rsplit('/').next().unwrap_or("");
                if in_glob_dir && !c.contains("include ") && c != crate::gen::splitter::DECOY_TEXT && !name.starts_with('.') && name.ends_with(".ledger") && tree.placement.iter().any(|x| x == p) {
                    by_dir.entry(d).or_default().push(p.clone());
                }
            }
            let candidate = by_dir.values().filter(|v| v.len() >= 2).map(|v| v.iter().min().unwrap().clone()).next();
            if let Some(link) = candidate {
                let link_path = dir.join(&link);
                let target_dir = dir.join("zzz-links");
                let target = target_dir.join("moved.ledger");
                let moved = std::fs::create_dir_all(&target_dir).is_ok() && std::fs::rename(&link_path, &target).is_ok() && std::os::unix::fs::symlink(&target, &link_path).is_ok();
                if moved {
                    rec.op("Loader::load (real fs, symlinked glob match)", &joined);
                    if let Some(seq) = guarded(rec, || collect(ops::real_loader(&real_root))) {
                        match seq {
                            Err(e) => {
                                rec.violation("split-ledger-fails-to-load", &format!("real-fs-symlink|{}", feats), &format!("loading failed once a glob match is a symbolic link: {}", e.lines().next().unwrap_or("")), wit(json!({"error": e, "link": link})));
                                violated = true;
                            }
                            Ok(seq) => {
                                let texts: Vec<String> = seq.iter().map(|x| norm(&x.1)).collect();
                                let want: Vec<String> = entries.iter().map(|e| norm(e)).collect();
                                if texts != want {
                                    rec.violation("delivery-order-differs", &format!("real-fs-symlink|{}", feats), "with a glob match that is a symbolic link the entries are delivered in another order", wit(json!({"link": link})));
                                    violated = true;
                                } else {
                                    rec.count("real-fs-symlink:sequence-agrees");
                                }
                            }
                        }
                    }
                }
            }
        }
        // ---- reports of the split tree equal those of the unsplit ledger
        if !violated && nomatch.is_none() {
            let single = vec![(format!("{}/whole.ledger", BASE), whole.clone())];
            rec.op("report::process (unsplit)", &whole);
            let a = guarded(rec, || run_code(&single, &format!("{}/whole.ledger", BASE)));
            rec.op("report::process (split, fake fs)", &joined);
            let b = guarded(rec, || run_code(&fake_files, &root));
            if let (Some(a), Some(b)) = (a, b) {
                match (&a, &b) {
                    (Ok(x), Ok(y)) => {
                        if same_reports(x, y) {
                            rec.count("reports-agree:fake-fs");
                        } else {
                            rec.violation("split-changes-report", &format!("fake-fs|{}", feats), "balance / register of the split tree differ from the unsplit ledger", wit(json!({})));
                            violated = true;
                        }
                    }
                    (Err(_), Err(_)) => rec.count("both-rejected"),
                    (Ok(_), Err(e)) => {
                        rec.violation("split-changes-report", &format!("fake-fs|rejected|{}", feats), &format!("the unsplit ledger is accepted, the split tree is rejected: {}", e.message), wit(json!({"error": e.rendered})));
                        violated = true;
                    }
                    (Err(e), Ok(_)) => {
                        rec.violation("split-changes-report", &format!("fake-fs|accepted|{}", feats), &format!("the unsplit ledger is rejected ({}), the split tree is accepted", e.message), wit(json!({})));
                        violated = true;
                    }
                }
            }
            // real fs through the binary: balance, register and flatten
            if !violated && rng.chance(ctx.tier.pick(40, 10), 1000) {
                let wp = dir.join("whole.ledger");
                let _ = std::fs::write(&wp, &whole);
                let (w, r) = (wp.to_string_lossy().into_owned(), real_root.to_string_lossy().into_owned());
                for cmd in [vec!["balance", "--now", "2030-01-01"], vec!["register", "--now", "2030-01-01"], vec!["primitive", "flatten"]] {
                    let mut a1 = cmd.clone();
                    a1.push(&w);
                    let mut a2 = cmd.clone();
                    a2.push(&r);
                    rec.op(&format!("okane {} (cli, split tree)", cmd[0]), &joined);
                    if let (Ok(o1), Ok(o2)) = (cli::run_okane(&ctx.cli_a, &a1, &dir), cli::run_okane(&ctx.cli_a, &a2, &dir)) {
                        rec.count(&format!("cli:{}-pairs", cmd.join("-").replace("---now-2030-01-01", "")));
                        if o1.code != o2.code || (o1.ok() && o1.stdout != o2.stdout) {
                            rec.violation("split-changes-report", &format!("cli-{}|{}", cmd[0], feats), &format!("`okane {}` differs between the unsplit ledger and the split tree", cmd.join(" ")), wit(json!({"stdout_unsplit": o1.stdout, "stdout_split": o2.stdout, "stderr_split": o2.stderr})));
                            break;
                        }
                    }
                }
            }
        }
        if rec.wants_sample() {
            rec.sample(json!({"files": fake_files.iter().map(|(p, _)| p.clone()).collect::<Vec<_>>(), "features": tree.features, "root_content": tree.files[&tree.root]}));
        }
        let _ = std::fs::remove_dir_all(&dir);
    }
    fn rule(&self) -> String {
        "Each case: an accepted, order-sensitive generated ledger (commodity declarations, 2-10 transactions, 45% of the postings carrying balance assertions, \
         assignments, inferred amounts) cut at entry boundaries into a random tree of files of depth <= 3: literal includes into the same directory, a sub-directory \
         (names with spaces), the parent directory, `./` and `../own-dir/` spellings, absolute paths; glob includes `*.ledger`, `a?b.ledger`, `part-[A-Za-z].ledger` whose byte-wise \
         sorted matches are the intended order, and globs with the wildcard in a directory component (`*/*.ledger`, `20??/*.ledger`) whose directories sort one way \
         and file names the other; decoys that must not match (dot-files, dot-directories, other extensions, deeper directories, wrong length) containing unparsable \
         text. One tree in ten gets an include that matches nothing (missing file, unmatched wildcard, only a dot-file / deeper file as candidates). The tree is \
         materialised as a FakeFileSystem map (absolute keys, and again with relative keys and a relative root) (whose glob returns reverse order) and as real files. Oracle: the (canonical path, source text, first line) sequence \
         delivered by Loader::load equals the written entry sequence with each entry's own file and line, no include line is delivered; report::process on the split \
         tree gives the same stored postings and balances as on the unsplit text; a sample compares `okane balance`, `register` and `primitive flatten` stdout; a \
         no-match include must fail on both file systems. Non-trivial = every generated tree; distinct by file contents."
            .to_string()
    }
    fn assumptions(&self) -> Vec<String> {
        vec![
            "sorted path order = byte-wise order of the path strings (generated names avoid locale-dependent collation questions)".into(),
            "the expected flattening is known by construction: the tree is built from the entry sequence".into(),
        ]
    }
    fn min_nontrivial(&self, tier: Tier) -> u64 {
        tier.pick(5_000, 200_000)
    }
    fn chunk(&self, tier: Tier) -> u64 {
        tier.pick(150, 2000)
    }
}
