//! One module per property.

use crate::engine::Check;

pub mod book;
pub mod c01;
pub mod c02;
pub mod c03;
pub mod c04;
pub mod c05;
pub mod c06;
pub mod c07;
pub mod c08;
pub mod c09;
pub mod c10;
pub mod c11;
pub mod c12;
pub mod c13;
pub mod c14;
pub mod c15;
pub mod c16;
pub mod c17;
pub mod c18;
pub mod import_common;
pub mod sanitizer_cases;
pub mod c19;
pub mod c20;

pub fn all() -> Vec<&'static dyn Check> {
    vec![&c01::C01, &c02::C02, &c03::C03, &c04::C04, &c05::C05, &c06::C06, &c07::C07, &c08::C08, &c09::C09, &c10::C10, &c11::C11, &c12::C12, &c13::C13, &c14::C14, &c15::C15, &c16::C16, &c17::C17, &c18::C18, &c19::C19, &c20::C20]
}
