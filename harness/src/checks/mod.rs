//! One module per property.

use crate::engine::Check;

pub mod c07;

pub fn all() -> Vec<&'static dyn Check> {
    vec![&c07::C07]
}
