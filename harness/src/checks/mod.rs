//! One module per property.

use crate::engine::Check;

pub mod c05;
pub mod c06;
pub mod c07;

pub fn all() -> Vec<&'static dyn Check> {
    vec![&c05::C05, &c06::C06, &c07::C07]
}
