//! Shared monitor for C01 / C02 / C03: runs `report::process` on a generated history and
//! compares acceptance, the named transaction, stored posting amounts, inferred and assigned
//! amounts, assertion diagnostics and final balances with the reference book-keeping.

use std::collections::BTreeMap;

use okane_core::report::{query, ReportError};
use serde_json::{json, Value};

use crate::engine::{guarded, Ctx, Recorder};
use crate::gen::bookgen::{self, Profile};
use crate::gen::ledger::{Entry, Ledger, Rendered};
use crate::model::book::{self, multi_to_string, Multi, Outcome, Reject, State};
use crate::model::q::Q;
use crate::ops;
use crate::rng::Rng;

pub struct CodeLedger {
    pub txns: Vec<Vec<(String, Multi)>>,
    pub balances: BTreeMap<String, Multi>,
}

pub struct CodeError {
    pub rendered: String,
    pub kind: String,
    pub message: String,
}

pub fn to_multi(a: &okane_core::report::Amount) -> Multi {
    let mut m = Multi::new();
    for (c, v) in ops::amount_pairs(a) {
        if !v.is_zero() {
            m.insert(c, Q::from_decimal(v));
        }
    }
    m
}

pub fn run_code(files: &[(String, String)], root: &str) -> Result<CodeLedger, CodeError> {
    ops::with_processed(files, root, None, |ctx, r| match r {
        Ok(ledger) => {
            let mut txns = Vec::new();
            for t in ledger.transactions() {
                let mut ps = Vec::new();
                for p in t.postings.iter() {
                    ps.push((p.account.as_str().to_string(), to_multi(&p.amount)));
                }
                txns.push(ps);
            }
            let mut balances = BTreeMap::new();
            match ledger.balance(ctx, &query::BalanceQuery::default()) {
                Ok(b) => {
                    for (acct, amt) in b.into_owned().into_vec() {
                        let m = to_multi(&amt);
                        if !m.is_empty() {
                            balances.insert(acct.as_str().to_string(), m);
                        }
                    }
                }
                Err(e) => {
                    return Err(CodeError {
                        rendered: e.to_string(),
                        kind: "QueryError".into(),
                        message: e.to_string(),
                    })
                }
            }
            Ok(CodeLedger { txns, balances })
        }
        Err(e) => {
            let (kind, message) = match e {
                ReportError::BookKeep(err, _) => {
                    let dbg = format!("{:?}", err);
                    let kind: String = dbg.chars().take_while(|c| c.is_alphanumeric()).collect();
                    (kind, err.to_string())
                }
                ReportError::Load(_) => ("Load".to_string(), String::new()),
                ReportError::PriceDB(_) => ("PriceDB".to_string(), String::new()),
            };
            Err(CodeError {
                rendered: ops::render_error(e),
                kind,
                message,
            })
        }
    })
}

/// `TXN<n>Q` token found in a rendered diagnostic -> 0-based transaction ordinal.
pub fn named_txn(rendered: &str) -> Option<usize> {
    let mut rest = rendered;
    while let Some(p) = rest.find("TXN") {
        let tail = &rest[p + 3..];
        let digits: String = tail.chars().take_while(|c| c.is_ascii_digit()).collect();
        if !digits.is_empty() && tail[digits.len()..].starts_with('Q') {
            return digits.parse::<usize>().ok().map(|n| n - 1);
        }
        rest = tail;
    }
    None
}

/// Parses okane's inline amount display: `0`, `5 USD`, `(1 USD + -2 EUR)`.
pub fn parse_inline_amount(s: &str) -> Option<Multi> {
    let s = s.trim();
    let mut m = Multi::new();
    if s == "0" {
        return Some(m);
    }
    let inner = s.strip_prefix('(').and_then(|x| x.strip_suffix(')')).unwrap_or(s);
    for term in inner.split(" + ") {
        let mut it = term.trim().splitn(2, ' ');
        let v = it.next()?;
        let c = it.next()?.trim();
        // a commodity with a declared format prints with digit grouping
        let d: rust_decimal::Decimal = v.replace(',', "").parse().ok()?;
        if !d.is_zero() {
            m.insert(c.to_string(), Q::from_decimal(d));
        }
    }
    Some(m)
}

/// `--> path:line:col`
pub fn arrow_location(rendered: &str) -> Option<(String, usize)> {
    for l in rendered.lines() {
        if let Some(p) = l.find("--> ") {
            let loc = l[p + 4..].trim();
            let mut parts = loc.rsplitn(3, ':');
            let _col = parts.next()?;
            let line = parts.next()?.parse::<usize>().ok()?;
            let path = parts.next()?.to_string();
            return Some((path, line));
        }
    }
    None
}

pub struct Finding {
    /// 0-based ordinal of the transaction the finding is about.
    pub ordinal: usize,
    pub prop: &'static str,
    pub clause: &'static str,
    pub class: String,
    pub what: String,
    pub extra: Value,
}

fn reject_class(r: &Reject) -> String {
    match r {
        Reject::Unbalanced { shape, .. } => format!("residual={}", shape),
        Reject::TwoUnconstrained => "two-unconstrained-postings".into(),
        Reject::AssertionFailed { expected, .. } => {
            if expected.1.is_empty() {
                "assertion=bare-zero".into()
            } else {
                "assertion=commodity".into()
            }
        }
        Reject::ZeroAssignMulti { .. } => "zero-assignment-on-multi-commodity-account".into(),
    }
}

fn reject_prop(r: &Reject) -> &'static str {
    match r {
        Reject::Unbalanced { .. } => "C01",
        Reject::TwoUnconstrained => "C03",
        Reject::AssertionFailed { .. } => "C02",
        Reject::ZeroAssignMulti { .. } => "C03",
    }
}

fn txn_features(ledger: &Ledger, ordinal: usize) -> String {
    // coarse shape of the transaction, used to keep classes apart
    let Some((_, t)) = ledger.txns().nth(ordinal) else { return "?".into() };
    let mut f = Vec::new();
    if t.posts.iter().any(|p| p.cost.is_some()) {
        f.push("cost");
    }
    if t.posts.iter().any(|p| p.lot.is_some()) {
        f.push("lot");
    }
    if t.posts.iter().any(|p| p.is_unconstrained()) {
        f.push("omitted");
    }
    if t.posts.iter().any(|p| p.is_assignment()) {
        f.push("assignment");
    }
    if t.posts.iter().any(|p| p.amount.is_some() && p.assertion.is_some()) {
        f.push("assertion");
    }
    if t.posts.iter().any(|p| matches!(p.amount, Some(crate::gen::ledger::AmountExpr::Expr { .. }))) {
        f.push("expr");
    }
    f.join("+")
}

fn compare_amounts(
    ledger: &Ledger,
    ordinal: usize,
    acc: &book::Accepted,
    code: &[(String, Multi)],
    out: &mut Vec<Finding>,
) {
    let Some((_, t)) = ledger.txns().nth(ordinal) else { return };
    if code.len() != acc.amounts.len() {
        out.push(Finding {
            ordinal,
            prop: "C01",
            clause: "posting-count-differs",
            class: "stored".into(),
            what: format!("transaction {} stored with {} postings, written with {}", t.payee, code.len(), acc.amounts.len()),
            extra: json!({}),
        });
        return;
    }
    for (i, ((acct, got), want)) in code.iter().zip(acc.amounts.iter()).enumerate() {
        let role = if acc.inferred == Some(i) {
            "inferred"
        } else if acc.assigned.contains(&i) {
            "assigned"
        } else {
            "written"
        };
        if acct != &t.posts[i].account || got != want {
            let (prop, clause) = match role {
                "inferred" => ("C03", "inferred-amount-wrong"),
                "assigned" => ("C03", "assigned-amount-wrong"),
                _ => ("C01", "stored-amount-differs"),
            };
            let ncomm = want.len();
            out.push(Finding {
                ordinal,
                prop,
                clause,
                class: format!("commodities={}|{}", ncomm.min(3), txn_features(ledger, ordinal)),
                what: format!(
                    "{} posting {} of {} ({}): stored {} {}, expected {}",
                    role,
                    i,
                    t.payee,
                    t.posts[i].account,
                    acct,
                    multi_to_string(got),
                    multi_to_string(want)
                ),
                extra: json!({"posting": i, "role": role, "got": multi_to_string(got), "want": multi_to_string(want)}),
            });
            return;
        }
    }
}

/// All clauses of C01/C02/C03 on one case.
pub fn evaluate(
    ledger: &Ledger,
    rendered: &Rendered,
    outcomes: &[(usize, Outcome)],
    final_state: &State,
    code: &Result<CodeLedger, CodeError>,
) -> Vec<Finding> {
    let mut out = Vec::new();
    let ntx = ledger.txns().count();
    match code {
        Ok(cl) => {
            let mut complete = outcomes.len() == ntx;
            for (j, (_, o)) in outcomes.iter().enumerate() {
                match o {
                    Outcome::MustReject(r) => {
                        let payee = ledger.txns().nth(j).map(|(_, t)| t.payee.clone()).unwrap_or_default();
                        out.push(Finding {
                            ordinal: j,
                            prop: reject_prop(r),
                            clause: "accepted-must-reject",
                            class: reject_class(r),
                            what: format!("transaction {} was accepted but must be rejected: {:?}", payee, short_reject(r)),
                            extra: json!({"transaction": payee}),
                        });
                        complete = false;
                        break;
                    }
                    Outcome::Unspecified(_) => {
                        complete = false;
                        break;
                    }
                    Outcome::MustAccept(a) | Outcome::May(a) => {
                        if let Some(c) = cl.txns.get(j) {
                            compare_amounts(ledger, j, a, c, &mut out);
                        }
                    }
                }
            }
            if complete && out.is_empty() {
                if cl.txns.len() != ntx {
                    out.push(Finding {
                        ordinal: ntx,
                        prop: "C01",
                        clause: "transaction-count-differs",
                        class: "stored".into(),
                        what: format!("{} transactions stored, {} written", cl.txns.len(), ntx),
                        extra: json!({}),
                    });
                }
                let want: BTreeMap<String, Multi> = final_state
                    .balances
                    .iter()
                    .map(|(a, m)| (a.clone(), book::pruned(m)))
                    .filter(|(_, m)| !m.is_empty())
                    .collect();
                if want != cl.balances {
                    let mut diff = String::new();
                    for a in want.keys().chain(cl.balances.keys()) {
                        let w = want.get(a).cloned().unwrap_or_default();
                        let g = cl.balances.get(a).cloned().unwrap_or_default();
                        if w != g {
                            diff = format!("{}: reported {}, expected {}", a, multi_to_string(&g), multi_to_string(&w));
                            break;
                        }
                    }
                    let has_inferred = outcomes.iter().any(|(_, o)| matches!(o, Outcome::MustAccept(a) | Outcome::May(a) if a.inferred.is_some() || !a.assigned.is_empty()));
                    out.push(Finding {
                        ordinal: ntx,
                        prop: "C03",
                        clause: "final-balance-differs",
                        class: if has_inferred { "with-inference".into() } else { "without-inference".into() },
                        what: format!("balance after an accepted history differs: {}", diff),
                        extra: json!({"diff": diff}),
                    });
                }
            }
        }
        Err(e) => {
            let Some(j_err) = named_txn(&e.rendered) else {
                out.push(Finding {
                    ordinal: ntx,
                    prop: "C01",
                    clause: "error-names-no-transaction",
                    class: e.kind.clone(),
                    what: format!("the run failed with an error that names no transaction: {}", e.rendered.lines().next().unwrap_or("")),
                    extra: json!({"error": e.rendered}),
                });
                return out;
            };
            // everything before j_err was accepted by the code
            for (j, (_, o)) in outcomes.iter().enumerate().take(j_err) {
                match o {
                    Outcome::MustReject(r) => {
                        let payee = ledger.txns().nth(j).map(|(_, t)| t.payee.clone()).unwrap_or_default();
                        out.push(Finding {
                            ordinal: j,
                            prop: reject_prop(r),
                            clause: "accepted-must-reject",
                            class: reject_class(r),
                            what: format!("transaction {} was accepted (a later one was rejected) but must be rejected: {:?}", payee, short_reject(r)),
                            extra: json!({"transaction": payee}),
                        });
                        return out;
                    }
                    Outcome::Unspecified(_) => return out,
                    _ => {}
                }
            }
            let Some((_, o)) = outcomes.get(j_err) else { return out };
            let payee = ledger.txns().nth(j_err).map(|(_, t)| t.payee.clone()).unwrap_or_default();
            match o {
                Outcome::MustAccept(a) => {
                    let prop = if e.kind == "BalanceAssertionFailure" { "C02" } else if a.inferred.is_some() || !a.assigned.is_empty() { "C03" } else { "C01" };
                    out.push(Finding {
                        ordinal: j_err,
                        prop,
                        clause: "rejected-must-accept",
                        class: format!("{}|{}|{}", e.kind, a.kind, txn_features(ledger, j_err)),
                        what: format!("transaction {} ({}) must be accepted but was rejected: {}", payee, a.kind, e.message),
                        extra: json!({"transaction": payee, "error": e.rendered}),
                    });
                }
                Outcome::May(_) | Outcome::Unspecified(_) => {}
                Outcome::MustReject(r) => {
                    if let Reject::AssertionFailed { post, expected, computed, .. } = r {
                        check_assertion_error(ledger, rendered, j_err, *post, expected, computed, e, &mut out);
                    }
                }
            }
        }
    }
    out
}

fn short_reject(r: &Reject) -> String {
    match r {
        Reject::Unbalanced { residual, shape } => format!("unbalanced residual {} ({})", multi_to_string(residual), shape),
        Reject::TwoUnconstrained => "two postings without amount or assertion".into(),
        Reject::AssertionFailed { post, account, expected, computed } => format!(
            "assertion on posting {} ({}) = {} {} is false, balance is {}",
            post,
            account,
            expected.0.to_string_exact(),
            expected.1,
            multi_to_string(computed)
        ),
        Reject::ZeroAssignMulti { post } => format!("posting {}: `= 0` on an account holding several commodities", post),
    }
}

#[allow(clippy::too_many_arguments)]
fn check_assertion_error(
    ledger: &Ledger,
    rendered: &Rendered,
    ordinal: usize,
    post: usize,
    expected: &(Q, String),
    computed: &Multi,
    e: &CodeError,
    out: &mut Vec<Finding>,
) {
    let Some((entry_idx, t)) = ledger.txns().nth(ordinal) else { return };
    // the variant name is not part of the property: any error that speaks of an assertion qualifies
    if e.kind != "BalanceAssertionFailure" && !e.message.to_lowercase().contains("assert") {
        // another rejection reason for the same transaction is still a rejection; but the
        // statement asks for an error that points at the posting and reports the balance.
        out.push(Finding {
            ordinal,
            prop: "C02",
            clause: "assertion-failure-reported-as-other-error",
            class: e.kind.clone(),
            what: format!("false assertion in {} reported as {}: {}", t.payee, e.kind, e.message),
            extra: json!({"error": e.rendered}),
        });
        return;
    }
    // position
    let want_line = rendered.post_lines[entry_idx][post];
    let want_path = rendered.entry_paths.get(entry_idx).cloned().unwrap_or_default();
    match arrow_location(&e.rendered) {
        Some((path, line)) if line == want_line && (want_path.is_empty() || std::path::Path::new(&path) == std::path::Path::new(&want_path)) => {}
        other => {
            out.push(Finding {
                ordinal,
                prop: "C02",
                clause: "assertion-error-points-elsewhere",
                class: if expected.1.is_empty() { "bare-zero".into() } else { "commodity".into() },
                what: format!("false assertion on line {} of {} {} reported at {:?}", want_line, if want_path.is_empty() { "the ledger" } else { want_path.as_str() }, t.payee, other),
                extra: json!({"error": e.rendered, "expected_line": want_line}),
            });
            return;
        }
    }
    // computed balance and difference
    let msg = &e.message;
    let parsed = (|| {
        let rest = msg.strip_prefix("balance assertion off by ")?;
        let (diff, comp) = rest.split_once(", computed balance is ")?;
        Some((parse_inline_amount(diff)?, parse_inline_amount(comp)?))
    })();
    let Some((got_diff, got_comp)) = parsed else {
        // The wording of the message is not part of the property. If it cannot be read in the known
        // form, accept any diagnostic that shows every term of the balance that was actually computed.
        let shows_balance = computed.iter().all(|(c, v)| e.rendered.contains(&format!("{} {}", v.to_string_exact(), c)));
        if shows_balance && !computed.is_empty() {
            return;
        }
        out.push(Finding {
            ordinal,
            prop: "C02",
            clause: "assertion-error-unreadable",
            class: "message".into(),
            what: format!("cannot read computed balance from `{}`", msg),
            extra: json!({"error": e.rendered}),
        });
        return;
    };
    let want_diff: Multi = if expected.1.is_empty() {
        computed.iter().map(|(c, v)| (c.clone(), v.neg())).collect()
    } else {
        let cur = computed.get(&expected.1).copied().unwrap_or(Q::ZERO);
        let mut m = Multi::new();
        if let Some(d) = expected.0.sub(cur) {
            if !d.is_zero() {
                m.insert(expected.1.clone(), d);
            }
        }
        m
    };
    if &got_comp != computed || got_diff != want_diff {
        out.push(Finding {
            ordinal,
            prop: "C02",
            clause: "assertion-error-wrong-balance",
            class: format!(
                "{}|commodities={}",
                if expected.1.is_empty() { "bare-zero" } else { "commodity" },
                computed.len().min(3)
            ),
            what: format!(
                "false assertion in {}: reported computed {} / off by {}, expected computed {} / off by {}",
                t.payee,
                multi_to_string(&got_comp),
                multi_to_string(&got_diff),
                multi_to_string(computed),
                multi_to_string(&want_diff)
            ),
            extra: json!({"error": e.rendered}),
        });
    }
}

/// An omitted-amount posting followed, in the same transaction, by an assertion on the same account.
pub fn assertion_after_omitted_same_account(ledger: &Ledger, ordinal: usize) -> bool {
    let Some((_, t)) = ledger.txns().nth(ordinal) else { return false };
    let Some(u) = t.posts.iter().position(|p| p.is_unconstrained()) else { return false };
    t.posts
        .iter()
        .skip(u + 1)
        .any(|p| p.account == t.posts[u].account && p.amount.is_some() && p.assertion.is_some())
}

/// Outcomes up to transaction `ordinal`, with that transaction judged under deferred inference.
fn deferred_outcomes(
    ledger: &Ledger,
    outcomes: &[(usize, Outcome)],
    ordinal: usize,
) -> Option<(Vec<(usize, Outcome)>, State)> {
    let mut state = State::default();
    let mut out = Vec::new();
    let mut k = 0usize;
    for (i, e) in ledger.entries.iter().enumerate() {
        match e {
            Entry::Commodity { name, precision, .. } => {
                if let Some(p) = precision {
                    state.precision.insert(name.clone(), *p);
                }
            }
            Entry::Txn(t) => {
                if k < ordinal {
                    let o = book::apply_txn(&mut state, t);
                    if !matches!(o, Outcome::MustAccept(_) | Outcome::May(_)) {
                        return None;
                    }
                    out.push((i, o));
                } else if k == ordinal {
                    let o = book::apply_txn_opts(&mut state, t, true);
                    out.push((i, o));
                    break;
                }
                k += 1;
            }
            _ => {}
        }
    }
    let _ = outcomes;
    Some((out, state))
}

pub fn describe_outcomes(outcomes: &[(usize, Outcome)]) -> Vec<String> {
    outcomes
        .iter()
        .map(|(_, o)| match o {
            Outcome::MustAccept(a) => format!("must-accept:{}", a.kind),
            Outcome::May(_) => "may:implied-exchange".into(),
            Outcome::MustReject(r) => format!("must-reject:{}", reject_class(r)),
            Outcome::Unspecified(r) => format!("unspecified:{}", r),
        })
        .collect()
}

/// One generated case for property `prop` under `profile`.
pub fn run_book_case(prop: &'static str, profile: Profile, ctx: &Ctx, idx: u64, rec: &mut Recorder) {
    let mut rng = Rng::for_case(ctx.seed, prop, idx);
    let (ledger, outcomes, state, mut labels) = bookgen::gen_case(&mut rng, profile);
    // a quarter of the cases reach their accounts and commodities through declared aliases
    let alias_seed = if rng.chance(1, 4) { Some(rng.next_u64()) } else { None };
    if alias_seed.is_some() {
        labels.push("written-through-aliases".into());
    }
    // one case in six is cut into a tree of included files (in-memory file system)
    let split_seed = if rng.chance(1, 6) { Some(rng.next_u64()) } else { None };
    if split_seed.is_some() {
        labels.push("cut-into-included-files".into());
    }
    run_book_ledger_full(prop, &ledger, &outcomes, &state, &labels, rec, alias_seed, split_seed);
}

pub fn run_book_ledger(
    prop: &'static str,
    ledger: &Ledger,
    outcomes: &[(usize, Outcome)],
    state: &State,
    labels: &[String],
    rec: &mut Recorder,
) {
    run_book_ledger_aliased(prop, ledger, outcomes, state, labels, rec, None)
}

pub fn run_book_ledger_aliased(
    prop: &'static str,
    ledger: &Ledger,
    outcomes: &[(usize, Outcome)],
    state: &State,
    labels: &[String],
    rec: &mut Recorder,
    alias_seed: Option<u64>,
) {
    run_book_ledger_full(prop, ledger, outcomes, state, labels, rec, alias_seed, None)
}

#[allow(clippy::too_many_arguments)]
pub fn run_book_ledger_full(
    prop: &'static str,
    ledger: &Ledger,
    outcomes: &[(usize, Outcome)],
    state: &State,
    labels: &[String],
    rec: &mut Recorder,
    alias_seed: Option<u64>,
    split_seed: Option<u64>,
) {
    let declared;
    let (ledger, mut rendered) = match alias_seed {
        None => (ledger, ledger.render()),
        Some(seed) => {
            let mut r = Rng::for_case(seed, "alias-plan", 0);
            let plan = crate::gen::alias::AliasPlan::random(&mut r, ledger);
            declared = plan.declare(ledger);
            let mut namer = crate::gen::alias::RandomNamer::new(&plan, seed, 50);
            let rendered = declared.render_named(&mut namer);
            rec.count_n("alias-substitutions", namer.substitutions);
            (&declared, rendered)
        }
    };
    let mut files = vec![(ops::ROOT.to_string(), rendered.text.clone())];
    let mut root = ops::ROOT.to_string();
    if let Some(seed) = split_seed {
        // cut the rendered text at entry boundaries into a tree of included files; the ground
        // truth of every posting's (file, line) moves with it
        let lines: Vec<&str> = rendered.text.lines().collect();
        let entry_texts: Vec<String> = rendered.entry_lines.iter().map(|(a, b)| lines[a - 1..*b].iter().map(|l| format!("{}\n", l)).collect()).collect();
        let mut r = Rng::for_case(seed, "split", 0);
        let tree = crate::gen::splitter::Tree::split(&mut r, &entry_texts);
        const BASE: &str = "/mem/t";
        files = tree.as_fake(BASE);
        root = format!("{}/{}", BASE, tree.root);
        let mut post_lines = Vec::new();
        let mut entry_lines = Vec::new();
        let mut entry_paths = Vec::new();
        for (k, (first, last)) in rendered.entry_lines.iter().enumerate() {
            let start = tree.entry_line[k];
            entry_lines.push((start, start + (last - first)));
            post_lines.push(rendered.post_lines[k].iter().map(|l| start + (l - first)).collect());
            entry_paths.push(format!("{}/{}", BASE, tree.placement[k]));
        }
        rec.count_n("split:files", files.len() as u64);
        let joined: String = files.iter().map(|(p, c)| format!("=== {}\n{}", p, c)).collect();
        rendered = Rendered { text: joined, entry_lines, post_lines, entry_paths };
    }
    let root = root.as_str();
    rec.op("report::process", &rendered.text);
    // generated magnitudes keep every sum and every written price product inside the decimal
    // range; only an implied exchange (outcome `may`) makes the code derive a rate and
    // converted amounts of its own, which for huge magnitudes can leave the range legitimately.
    rec.excuse_decimal_overflow = outcomes.iter().any(|(_, o)| matches!(o, Outcome::May(_) | Outcome::Unspecified(_)));
    okane_core::verif::set_enabled(true);
    let _ = okane_core::verif::drain();
    let code = guarded(rec, || run_code(&files, root));
    let events = okane_core::verif::drain();
    okane_core::verif::set_enabled(false);
    rec.hook_events(&events);
    let Some(code) = code else { return };
    for l in labels {
        rec.count(&format!("gen:{}", l));
    }
    let desc = describe_outcomes(outcomes);
    if let Some(last) = desc.last() {
        rec.count(&format!("model:{}", last));
    }
    match &code {
        Ok(_) => rec.count("code:accepted"),
        Err(e) => rec.count(&format!("code:rejected:{}", e.kind)),
    }
    // non-trivial: the last transaction reached the balance check with a non-empty residual,
    // or carries an inference / assertion, i.e. anything but "unspecified".
    if !matches!(outcomes.last(), Some((_, Outcome::Unspecified(_))) | None) {
        rec.nontrivial(&rendered.text);
    } else {
        rec.skip();
    }
    if rec.wants_sample() {
        rec.sample(json!({"ledger": rendered.text, "model": desc, "code": match &code { Ok(_) => "accepted".to_string(), Err(e) => format!("rejected: {}", e.message) }}));
    }
    let mut findings = evaluate(ledger, &rendered, outcomes, state, &code);
    if let Some(first) = findings.first() {
        let j = first.ordinal;
        if assertion_after_omitted_same_account(ledger, j) {
            // Is the code's behaviour exactly "the inferred amount reaches the account only after
            // all sibling postings"? Then it is that one deviation and nothing else.
            if let Some((alt, alt_state)) = deferred_outcomes(ledger, outcomes, j) {
                if evaluate(ledger, &rendered, &alt, &alt_state, &code).is_empty() {
                    let payee = ledger.txns().nth(j).map(|(_, t)| t.payee.clone()).unwrap_or_default();
                    findings = vec![Finding {
                        ordinal: j,
                        prop: "C02",
                        clause: "assertion-sees-balance-without-inferred-amount",
                        class: "omitted-amount-earlier-on-same-account".into(),
                        what: format!(
                            "in {} an assertion follows an omitted-amount posting on the same account: it is checked against the balance without the inferred amount (the inferred amount is applied after all siblings)",
                            payee
                        ),
                        extra: json!({"transaction": payee}),
                    }];
                }
            }
        }
    }
    // secondary clause on hook events (C02): the assertions the code evaluated, in order
    if prop == "C02" && findings.is_empty() {
        let model_asserts: usize = outcomes
            .iter()
            .map(|(_, o)| match o {
                Outcome::MustAccept(a) | Outcome::May(a) => a.assertions.len(),
                _ => 0,
            })
            .sum();
        let all_accepted = outcomes.iter().all(|(_, o)| matches!(o, Outcome::MustAccept(_)));
        let hook_asserts = events.iter().filter(|(t, _)| *t == "bk.assert").count();
        if all_accepted && code.is_ok() && outcomes.len() == ledger.txns().count() && hook_asserts != model_asserts {
            rec.violation(
                "hook-assertion-count",
                "accepted-history",
                &format!("{} assertions written, {} evaluated by book-keeping", model_asserts, hook_asserts),
                json!({"ledger": rendered.text}),
            );
        }
        rec.count_n("assertions-evaluated", hook_asserts as u64);
    }
    for f in findings {
        // C01 also promises that a transaction with exactly one omitted amount (or whose totals are
        // zero) is accepted: a wrong rejection of an inferred / assigned transaction is C01's business
        // as much as C03's.
        let also_c01 = prop == "C01" && f.prop == "C03" && f.clause == "rejected-must-accept";
        if f.prop != prop && !also_c01 {
            rec.count(&format!("other-property-finding:{}:{}", f.prop, f.clause));
            continue;
        }
        rec.count(&format!("violated:{}", f.clause));
        let mut w = json!({"ledger": rendered.text, "model_outcomes": desc, "code": match &code { Ok(_) => "accepted".to_string(), Err(e) => e.rendered.clone() }});
        if let Some(o) = w.as_object_mut() {
            o.insert("detail".into(), f.extra);
        }
        rec.violation(f.clause, &f.class, &f.what, w);
    }
    let _ = Entry::Comment(String::new());
}
