//! C10 — converted reports convert every amount or fail.

use std::collections::{BTreeMap, BTreeSet};

use chrono::NaiveDate;
use okane_core::report::query;
use serde_json::json;

use crate::checks::book::to_multi;
use crate::checks::c04::parse_balance_output;
use crate::checks::c09::close;
use crate::cli;
use crate::engine::{guarded, Check, Ctx, Recorder, Tier};
use crate::gen::bookgen::{self, BookGen};
use crate::gen::ledger::{Entry, Ledger, Price};
use crate::model::book::{multi_add, multi_to_string, pruned, Multi};
use crate::model::price::{Conversion, Event, PriceModel, Source};
use crate::model::q::Q;
use crate::ops;
use crate::rng::Rng;

pub struct C10;

type Range = (Option<NaiveDate>, Option<NaiveDate>);

#[derive(Clone, Debug)]
struct Query {
    target: String,
    /// None = historical, Some(now) = up to date
    now: Option<NaiveDate>,
    range: Range,
}

type Report = Vec<(String, Vec<(String, rust_decimal::Decimal)>)>;

fn gen_ledger(rng: &mut Rng) -> Option<Ledger> {
    let mut g = BookGen::new(rng, bookgen::P_CONVERT);
    g.declarations();
    let n = 2 + g.rng.usize(14);
    for _ in 0..n {
        if g.stopped {
            return None;
        }
        // one transaction in six states a rate through an implied exchange next to a posting with
        // an explicit cost in another pair
        if g.rng.chance(1, 6) {
            g.push_implied_exchange();
        } else {
            g.push_txn(true);
        }
    }
    if g.stopped {
        return None;
    }
    Some(g.ledger)
}

/// Price events the ledger's own postings record (cost, else lot price).
fn ledger_events(ledger: &Ledger) -> Vec<Event> {
    let mut out = Vec::new();
    for (_, t) in ledger.txns() {
        for p in &t.posts {
            let Some(a) = &p.amount else { continue };
            let Some(pr) = p.cost.as_ref().or(p.lot.as_ref()) else { continue };
            let x = a.commodity().to_string();
            let (qx, qy) = match pr {
                Price::Rate(r) => (Q::ONE, r.num.q()),
                Price::Total(t) => (a.value().abs(), t.num.q()),
            };
            out.push(Event { date: t.date, source: Source::Ledger, x, qty_x: qx, y: pr.amt().commodity.clone(), qty_y: qy });
        }
        // the implied exchange of an IMPLIEDnQ transaction: posting 2 (`a Y`) against what posting 3
        // pays beyond the cost of posting 1 (`b Z`)
        if t.payee.starts_with("IMPLIED") && t.posts.len() == 3 {
            if let (Some(p1), Some(Price::Rate(r)), Some(p2), Some(p3)) = (t.posts[0].amount.as_ref(), t.posts[0].cost.as_ref(), t.posts[1].amount.as_ref(), t.posts[2].amount.as_ref()) {
                if let Some(cost) = p1.value().mul(r.num.q()) {
                    if let Some(b) = p3.value().neg().sub(cost) {
                        out.push(Event { date: t.date, source: Source::Ledger, x: p2.commodity().to_string(), qty_x: p2.value(), y: p3.commodity().to_string(), qty_y: b });
                    }
                }
            }
        }
    }
    out
}

fn in_range(d: NaiveDate, r: Range) -> bool {
    r.0.map(|s| d >= s).unwrap_or(true) && r.1.map(|e| d < e).unwrap_or(true)
}

enum Expect {
    /// per account: admissible exact totals in the target commodity (one per rounding policy)
    /// ... together with the sum of the magnitudes of the converted terms (the scale against which
    /// the rounding noise of 28-place rates has to be judged)
    Report(BTreeMap<String, (Vec<Q>, f64)>),
    MustFail(String),
    /// ambiguous (several admissible rates, or a missing rate needed only by a zero-valued amount)
    Unspecified(&'static str),
}

fn unique_rate(model: &PriceModel, from: &str, to: &str, d: NaiveDate) -> Result<Option<Q>, &'static str> {
    match model.convert(from, to, d) {
        Conversion::Identity => Ok(Some(Q::ONE)),
        Conversion::NoChain => Ok(None),
        Conversion::ModelOverflow => Err("model overflow"),
        Conversion::Chains { admissible, .. } => {
            let mut rates: Vec<Q> = Vec::new();
            for c in &admissible {
                for r in &c.rates {
                    if !rates.iter().any(|x| x == r) {
                        rates.push(*r);
                    }
                }
            }
            if rates.len() == 1 {
                Ok(Some(rates[0]))
            } else {
                Err("several admissible rates")
            }
        }
    }
}

thread_local! {
    /// holdings whose exact and pre-rounded conversions differ (how often the rounding clause bites)
    static POLICY_DIFFERS: std::cell::Cell<u64> = const { std::cell::Cell::new(0) };
}

fn expect(
    model: &PriceModel,
    txns: &[(NaiveDate, Vec<(String, Vec<(String, Q)>)>)],
    precision: &BTreeMap<String, u32>,
    q: &Query,
) -> Expect {
    let mut out: BTreeMap<String, (Vec<Q>, f64)> = BTreeMap::new();
    let f = |q: Q| (q.n as f64 / q.d as f64).abs();
    match q.now {
        None => {
            // historical: every posting at its own transaction date
            let mut totals: BTreeMap<String, Q> = BTreeMap::new();
            let mut scales: BTreeMap<String, f64> = BTreeMap::new();
            let mut zero_needs_missing = false;
            for (d, ps) in txns {
                if !in_range(*d, q.range) {
                    continue;
                }
                for (acct, terms) in ps {
                    for (c, v) in terms {
                        let rate = match unique_rate(model, c, &q.target, *d) {
                            Ok(r) => r,
                            Err(e) => return Expect::Unspecified(e),
                        };
                        match rate {
                            None if v.is_zero() => zero_needs_missing = true,
                            None => return Expect::MustFail(format!("{} {} of {} on {} has no rate into {}", v.to_string_exact(), c, acct, d, q.target)),
                            Some(r) => {
                                let Some(x) = v.mul(r) else { return Expect::Unspecified("model overflow") };
                                let e = totals.entry(acct.clone()).or_insert(Q::ZERO);
                                let Some(s) = e.add(x) else { return Expect::Unspecified("model overflow") };
                                *e = s;
                                *scales.entry(acct.clone()).or_insert(0.0) += f(x);
                            }
                        }
                    }
                    totals.entry(acct.clone()).or_insert(Q::ZERO);
                }
            }
            if zero_needs_missing {
                return Expect::Unspecified("missing rate needed only by a zero-valued amount");
            }
            for (a, v) in totals {
                let sc = scales.get(&a).copied().unwrap_or(0.0);
                out.insert(a, (vec![v], sc));
            }
        }
        Some(now) => {
            let mut bal: BTreeMap<String, Multi> = BTreeMap::new();
            for (d, ps) in txns {
                if !in_range(*d, q.range) {
                    continue;
                }
                for (acct, terms) in ps {
                    let e = bal.entry(acct.clone()).or_default();
                    for (c, v) in terms {
                        if multi_add(e, c, *v).is_none() {
                            return Expect::Unspecified("model overflow");
                        }
                    }
                }
            }
            for (acct, m) in bal {
                let m = pruned(&m);
                // two policies: holdings converted exactly, or first rounded to their own precision
                let mut exact = Q::ZERO;
                let mut pre_rounded = Q::ZERO;
                let mut scale = 0.0f64;
                for (c, v) in &m {
                    let rate = match unique_rate(model, c, &q.target, now) {
                        Ok(r) => r,
                        Err(e) => return Expect::Unspecified(e),
                    };
                    let Some(r) = rate else {
                        return Expect::MustFail(format!("{} {} held by {} has no rate into {} as of {}", v.to_string_exact(), c, acct, q.target, now));
                    };
                    let rv = precision.get(c).and_then(|dp| v.round_half_even(*dp)).unwrap_or(*v);
                    let (Some(a), Some(b)) = (v.mul(r), rv.mul(r)) else { return Expect::Unspecified("model overflow") };
                    let (Some(a), Some(b)) = (exact.add(a), pre_rounded.add(b)) else { return Expect::Unspecified("model overflow") };
                    exact = a;
                    pre_rounded = b;
                    scale += f(*v) * f(r);
                }
                // "rounded only to T's declared precision": a holding is converted as it stands; a
                // report that first rounds it to its own commodity's precision differs
                if pre_rounded != exact {
                    POLICY_DIFFERS.with(|c| c.set(c.get() + 1));
                }
                out.insert(acct, (vec![exact], scale));
            }
        }
    }
    Expect::Report(out)
}

/// Does the reported value match one of the admissible exact totals, rounded (or not) to T's
/// precision? `scale` = sum of the magnitudes of the converted terms: rates are 28-place
/// decimals, so the code's total may deviate from the exact one by up to ~1e-17 of that (1e-27 for rates of ordinary size), which can
/// also flip a rounding that sits exactly on a tie.
fn total_matches(got: Q, wants: &[Q], scale: f64, dp: Option<u32>) -> bool {
    let f = |q: Q| q.n as f64 / q.d as f64;
    // rates are kept with 28 decimals, not 28 significant digits: a chain through a tiny rate
    // (1/1100000) carries a relative error of up to ~1e-17, which the amounts then inherit
    let tol = scale * 1e-15 + 1e-22;
    for w in wants {
        if got == *w {
            return true;
        }
        match got.sub(*w) {
            Some(d) => {
                if f(d).abs() <= tol {
                    return true;
                }
            }
            None => {
                // the exact difference does not fit the model's i128 rationals (a 28-place decimal
                // against a fraction with a 16-digit denominator): compare in floating point, which
                // still separates every real deviation (a dropped, doubled or per-posting-rounded
                // amount is >= 1e-6 of the scale) from the 1e-27 noise of the rates
                if (f(got) - f(*w)).abs() <= scale.max(f(*w).abs()) * 1e-12 + 1e-15 {
                    return true;
                }
            }
        }
        let Some(dp) = dp else { continue };
        let Some(unit) = Q::from_parts(1, dp) else { continue };
        let Some(scaled) = w.div(unit) else {
            // model overflow: the reported value must at least be within half a unit of the total
            if (f(got) - f(*w)).abs() <= 0.5 * 10f64.powi(-(dp as i32)) * (1.0 + 1e-9) + tol {
                return true;
            }
            continue;
        };
        let floor = scaled.n.div_euclid(scaled.d);
        let Some(frac) = scaled.sub(Q::int(floor)) else { continue };
        let near_tie = (f(frac) - 0.5).abs() <= tol * 10f64.powi(dp as i32);
        let mut cands = Vec::new();
        if let Some(r) = w.round_half_even(dp) {
            cands.push(r);
        }
        if near_tie {
            cands.push(Q::int(floor).mul(unit).unwrap_or(Q::ZERO));
            cands.push(Q::int(floor + 1).mul(unit).unwrap_or(Q::ZERO));
        }
        if cands.contains(&got) {
            return true;
        }
    }
    false
}

fn describe(q: &Query) -> String {
    format!(
        "balance -X {} {} range [{}, {})",
        q.target,
        match q.now {
            None => "--historical".to_string(),
            Some(d) => format!("--now {}", d),
        },
        q.range.0.map(|d| d.to_string()).unwrap_or("-inf".into()),
        q.range.1.map(|d| d.to_string()).unwrap_or("+inf".into())
    )
}

fn judge(rec: &mut Recorder, q: &Query, exp: &Expect, got: &Result<Report, String>, dp: Option<u32>, via: &str, wit: &dyn Fn(serde_json::Value) -> serde_json::Value) -> bool {
    let strat = if q.now.is_some() { "up-to-date" } else { "historical" };
    let ranged = if q.range.0.is_some() || q.range.1.is_some() { "ranged" } else { "whole" };
    match (exp, got) {
        (Expect::Unspecified(why), _) => {
            rec.count(&format!("query:unspecified:{}", why));
            true
        }
        (Expect::MustFail(_), Err(_)) => {
            rec.count(&format!("query:missing-rate-rejected:{}", strat));
            true
        }
        (Expect::MustFail(why), Ok(rows)) => {
            rec.violation(
                "reported-despite-missing-rate",
                &format!("{}|{}|{}", via, strat, ranged),
                &format!("{} succeeded although {}", describe(q), why),
                wit(json!({"query": describe(q), "report": format!("{:?}", rows)})),
            );
            false
        }
        (Expect::Report(_), Err(e)) => {
            rec.violation("failed-with-all-rates-available", &format!("{}|{}|{}", via, strat, ranged), &format!("{} failed: {}", describe(q), e.lines().next().unwrap_or("")), wit(json!({"query": describe(q), "error": e})));
            false
        }
        (Expect::Report(want), Ok(rows)) => {
            let mut seen = BTreeSet::new();
            for (acct, terms) in rows {
                seen.insert(acct.clone());
                let (wants, scale) = want.get(acct).cloned().unwrap_or_else(|| (vec![Q::ZERO], 0.0));
                let mut ok = true;
                let mut got_total = Q::ZERO;
                for (c, v) in terms {
                    if c != &q.target {
                        if !v.is_zero() {
                            rec.violation(
                                "amount-left-unconverted",
                                &format!("{}|{}|{}", via, strat, ranged),
                                &format!("{}: {} still shows {} {}", describe(q), acct, v, c),
                                wit(json!({"query": describe(q), "account": acct})),
                            );
                            return false;
                        }
                        continue;
                    }
                    got_total = Q::from_decimal(*v);
                }
                if !total_matches(got_total, &wants, scale, dp) {
                    ok = false;
                }
                if !ok {
                    // classify by the size of the deviation relative to the expected value
                    let w = wants[0];
                    let class = if w.is_zero() { "expected-zero" } else if got_total.is_zero() { "dropped" } else if got_total.sub(w).and_then(|d| d.add(d)).map(|d2| close(d2, w.add(w).unwrap_or(w))).unwrap_or(false) { "doubled" } else { "differs" };
                    rec.violation(
                        "converted-total-wrong",
                        &format!("{}|{}|{}|{}", via, strat, ranged, class),
                        &format!("{}: {} reported {} {}, expected {}", describe(q), acct, got_total.to_string_exact(), q.target, wants.iter().map(|x| x.to_string_exact()).collect::<Vec<_>>().join(" or ")),
                        wit(json!({"query": describe(q), "account": acct})),
                    );
                    return false;
                }
            }
            for (acct, (wants, scale)) in want {
                if !seen.contains(acct) && !wants.iter().any(|w| total_matches(Q::ZERO, &[*w], *scale, dp)) {
                    rec.violation("account-missing", &format!("{}|{}|{}", via, strat, ranged), &format!("{}: {} (worth {}) is absent", describe(q), acct, wants[0].to_string_exact()), wit(json!({"query": describe(q), "account": acct})));
                    return false;
                }
            }
            rec.count(&format!("query:report-agrees:{}:{}", strat, ranged));
            true
        }
    }
}

impl Check for C10 {
    fn id(&self) -> &'static str {
        "C10"
    }
    fn cases(&self, tier: Tier) -> u64 {
        tier.pick(10_000, 2_000_000)
    }
    fn run(&self, ctx: &Ctx, idx: u64, rec: &mut Recorder) {
        let mut rng = Rng::for_case(ctx.seed, "C10", idx);
        let Some(mut ledger) = gen_ledger(&mut rng) else {
            rec.skip();
            return;
        };
        // a third of the ledgers are not in date order
        if rng.chance(1, 3) {
            let mut dates: Vec<NaiveDate> = ledger.txns().map(|(_, t)| t.date).collect();
            rng.shuffle(&mut dates);
            let mut k = 0;
            for e in ledger.entries.iter_mut() {
                if let Entry::Txn(t) = e {
                    t.date = dates[k];
                    k += 1;
                }
            }
        }
        let rendered = ledger.render();
        let mut precision: BTreeMap<String, u32> = BTreeMap::new();
        for e in &ledger.entries {
            if let Entry::Commodity { name, precision: Some(p), .. } = e {
                precision.insert(name.clone(), *p);
            }
        }
        let dates: BTreeSet<NaiveDate> = ledger.txns().map(|(_, t)| t.date).collect();
        let lo = *dates.iter().next().unwrap();
        let hi = *dates.iter().next_back().unwrap();
        let mut date_pool: Vec<NaiveDate> = dates.iter().copied().collect();
        date_pool.push(lo - chrono::Duration::days(3));
        date_pool.push(hi + chrono::Duration::days(3));
        date_pool.push(lo + chrono::Duration::days(1));
        // price DB
        let mut events = ledger_events(&ledger);
        let n_db = rng.usize(8);
        let mut price_db = String::new();
        for _ in 0..n_db {
            let x = rng.pick_str(bookgen::COMMODITIES);
            let mut y = rng.pick_str(bookgen::COMMODITIES);
            if x == y {
                y = bookgen::COMMODITIES[(bookgen::COMMODITIES.iter().position(|c| *c == x).unwrap() + 1) % bookgen::COMMODITIES.len()];
            }
            let d = *rng.pick(&date_pool);
            let (m, s) = *rng.pick(&[(15i128, 1u32), (2, 0), (110, 0), (91, 4), (125, 2), (3, 0), (8, 1)]);
            price_db.push_str(&format!("P {} {} {} {}\n", d.format("%Y/%m/%d"), x, crate::gen::ledger::Dec::new(m, s).text(), y));
            events.push(Event { date: d, source: Source::PriceDb, x: x.to_string(), qty_x: Q::ONE, y: y.to_string(), qty_y: Q::from_parts(m, s).unwrap() });
        }
        let Some(model) = PriceModel::from_events(&events) else {
            rec.skip();
            return;
        };
        // queries
        let mut queries: Vec<Query> = Vec::new();
        for t in bookgen::COMMODITIES {
            for _ in 0..3 {
                let now = if rng.chance(1, 3) { None } else { Some(*rng.pick(&date_pool)) };
                let range: Range = match rng.below(4) {
                    0 | 1 => (None, None),
                    2 => {
                        let mut a = [*rng.pick(&date_pool), *rng.pick(&date_pool)];
                        a.sort();
                        (Some(a[0]), Some(a[1]))
                    }
                    _ => {
                        if rng.chance(1, 2) {
                            (Some(*rng.pick(&date_pool)), None)
                        } else {
                            (None, Some(*rng.pick(&date_pool)))
                        }
                    }
                };
                queries.push(Query { target: t.to_string(), now, range });
            }
        }
        rng.shuffle(&mut queries);
        let dir = ctx.scratch.join(format!("c10-{}", idx));
        let _ = std::fs::create_dir_all(&dir);
        let db_path = dir.join("prices.db");
        let has_db = !price_db.is_empty();
        if has_db {
            let _ = std::fs::write(&db_path, &price_db);
        }
        let witness_input = format!("=== ledger\n{}=== price db\n{}", rendered.text, price_db);
        rec.op("process+balance(-X)", &witness_input);
        let files = vec![(ops::ROOT.to_string(), rendered.text.clone())];
        okane_core::verif::set_enabled(true);
        let _ = okane_core::verif::drain();
        let qs = queries.clone();
        type Txns = Vec<(NaiveDate, Vec<(String, Vec<(String, Q)>)>)>;
        let observed: Option<Result<(Txns, Vec<Result<Report, String>>), String>> = guarded(rec, || {
            ops::with_processed(&files, ops::ROOT, if has_db { Some(db_path.as_path()) } else { None }, |rctx, r| match r {
                Err(e) => Err(ops::render_error(e)),
                Ok(l) => {
                    let mut txns: Txns = Vec::new();
                    for t in l.transactions() {
                        let ps = t
                            .postings
                            .iter()
                            .map(|p| (p.account.as_str().to_string(), ops::amount_pairs(&p.amount).into_iter().map(|(c, v)| (c, Q::from_decimal(v))).collect()))
                            .collect();
                        txns.push((t.date, ps));
                    }
                    let mut results = Vec::new();
                    for q in &qs {
                        let Some(target) = rctx.commodity(&q.target) else {
                            results.push(Err(format!("commodity {} not found", q.target)));
                            continue;
                        };
                        let bq = query::BalanceQuery {
                            conversion: Some(query::Conversion {
                                strategy: match q.now {
                                    None => query::ConversionStrategy::Historical,
                                    Some(now) => query::ConversionStrategy::UpToDate { now },
                                },
                                target,
                            }),
                            date_range: query::DateRange { start: q.range.0, end: q.range.1 },
                        };
                        results.push(match l.balance(rctx, &bq) {
                            Ok(b) => Ok(b.into_owned().into_vec().into_iter().map(|(a, amt)| (a.as_str().to_string(), ops::amount_pairs(&amt))).collect()),
                            Err(e) => Err(ops::render_error(&e)),
                        });
                    }
                    Ok((txns, results))
                }
            })
        });
        let events_log = okane_core::verif::drain();
        okane_core::verif::set_enabled(false);
        for (t, d) in &events_log {
            if *t == "query.balance" {
                let kind = if d.contains("Historical") { "historical" } else if d.contains("UpToDate") { "up-to-date" } else { "none" };
                rec.count(&format!("hook:query.balance:{}:{}", d.split('|').next().unwrap_or(""), kind));
            }
        }
        let Some(observed) = observed else {
            let _ = std::fs::remove_dir_all(&dir);
            return;
        };
        let (txns, results) = match observed {
            Ok(x) => x,
            Err(e) => {
                rec.skip();
                rec.count(if e.contains("assertion") { "skipped:rejected-assertion" } else { "skipped:rejected-other" });
                let _ = std::fs::remove_dir_all(&dir);
                return;
            }
        };
        rec.nontrivial(&witness_input);
        // "its own transaction date" is the date written in the header (not the effective date after `=`)
        let written: Vec<NaiveDate> = ledger.txns().map(|(_, t)| t.date).collect();
        let stored: Vec<NaiveDate> = txns.iter().map(|(d, _)| *d).collect();
        if written != stored {
            rec.violation(
                "transaction-date-differs",
                "stored",
                "the dates of the stored transactions differ from the transaction dates written in the ledger",
                json!({"ledger": rendered.text, "written": written.iter().map(|d| d.to_string()).collect::<Vec<_>>(), "stored": stored.iter().map(|d| d.to_string()).collect::<Vec<_>>()}),
            );
            let _ = std::fs::remove_dir_all(&dir);
            return;
        }
        if ledger.txns().any(|(_, t)| t.effective.is_some()) {
            rec.count("ledgers-with-effective-dates");
        }
        let _ = to_multi;
        let _ = multi_to_string;
        let wit = |extra: serde_json::Value| json!({"ledger": rendered.text, "price_db": price_db, "detail": extra});
        let mut all_ok = true;
        for (q, got) in queries.iter().zip(results.iter()) {
            if got.as_ref().err().map(|e| e.contains("not found") && e.starts_with("commodity")).unwrap_or(false) {
                // the target commodity never occurs in this ledger or price DB: nothing to convert into
                rec.count("query:target-unknown");
                continue;
            }
            let before = POLICY_DIFFERS.with(|c| c.get());
            let exp = expect(&model, &txns, &precision, q);
            let bites = POLICY_DIFFERS.with(|c| c.get()) - before;
            if bites > 0 {
                rec.count_n("holdings-with-more-decimals-than-their-format", bites);
            }
            if !judge(rec, q, &exp, got, precision.get(&q.target).copied(), "api", &wit) {
                all_ok = false;
                break;
            }
        }
        // through the real binary
        if all_ok && rng.chance(ctx.tier.pick(30, 8), 1000) {
            let lp = dir.join("l.ledger");
            let _ = std::fs::write(&lp, &rendered.text);
            for q in queries.iter().take(3) {
                let lps = lp.to_string_lossy().into_owned();
                let dbs = db_path.to_string_lossy().into_owned();
                let mut args: Vec<String> = vec!["balance".into(), "-X".into(), q.target.clone()];
                match q.now {
                    None => {
                        args.push("--historical".into());
                        args.push("--now".into());
                        args.push("2030-01-01".into());
                    }
                    Some(d) => {
                        args.push("--now".into());
                        args.push(d.to_string());
                    }
                }
                if let Some(s) = q.range.0 {
                    args.push("--start".into());
                    args.push(s.to_string());
                }
                if let Some(e) = q.range.1 {
                    args.push("--end".into());
                    args.push(e.to_string());
                }
                if has_db {
                    args.push("--price-db".into());
                    args.push(dbs.clone());
                }
                args.push(lps);
                let argv: Vec<&str> = args.iter().map(|s| s.as_str()).collect();
                rec.op("okane balance -X (cli)", &witness_input);
                let Ok(res) = cli::run_okane(&ctx.cli_a, &argv, &dir) else { continue };
                rec.count("cli:balance-x-runs");
                if res.code == Some(1) && res.stderr.contains("not found") && res.stderr.contains("commodity") && !res.stderr.contains("rate") {
                    continue;
                }
                let got: Result<Report, String> = if res.ok() {
                    parse_balance_output(&res.stdout).ok_or_else(|| format!("unreadable stdout: {}", res.stdout))
                } else if res.code == Some(1) {
                    Err(res.stderr.clone())
                } else {
                    rec.violation("cli-abnormal-exit", &res.class(), &format!("okane {:?} ended with {}", args, res.class()), wit(json!({"argv": args, "stderr": res.stderr})));
                    break;
                };
                let exp = expect(&model, &txns, &precision, q);
                if !judge(rec, q, &exp, &got, precision.get(&q.target).copied(), "cli", &wit) {
                    break;
                }
            }
        }
        if rec.wants_sample() {
            rec.sample(json!({"ledger_head": rendered.text.chars().take(500).collect::<String>(), "price_db": price_db, "queries": queries.iter().map(describe).collect::<Vec<_>>() }));
        }
        let _ = std::fs::remove_dir_all(&dir);
    }
    fn rule(&self) -> String {
        "Each case: an accepted generated ledger of 2-15 transactions over USD/EUR/JPY/AAPL (30% of the postings carry a cost, 12% a lot price, never both; \
         inferred and assigned amounts; precisions declared for a random half of the commodities; a third of the ledgers not in date order) plus 0-7 price-DB lines \
         between random pairs on dates around the history, so that needed rates are often missing or only available later. 12 queries per ledger on one Ledger value: \
         every target commodity x {historical | up-to-date at a date from {each transaction date, first-3, first+1, last+3}} x {no range, closed range, half-open range}. \
         Oracle: price events are derived from the written postings (cost, else lot) and the price-DB lines and fed to the C09 reference model; expected = per account \
         the sum over the code's own stored postings in [start, end) of amount x rate (historical: rate at the transaction date; up-to-date: per-commodity totals at `now`, \
         holdings taken exactly or first rounded to their own precision), amounts already in T unchanged, compared exactly up to one final half-even rounding to T's \
         precision (1e-18 relative when T has none); if a needed rate is missing the call must fail; no amount may stay in another commodity. Queries whose needed \
         conversions have several admissible rates are counted as unspecified. 3% go through `okane balance -X [--historical] --now [--price-db] [--start --end]`. \
         Non-trivial = accepted ledger; distinct by ledger + price DB."
            .to_string()
    }
    fn assumptions(&self) -> Vec<String> {
        vec![
            "a posting's recorded price is its cost, else its lot price (postings never carry both)".into(),
            "holdings are converted as they stand (exact sums of the stored posting amounts); rounding a holding to its own commodity's precision before converting is a deviation".into(),
            "a missing rate that only a zero-valued amount would need makes the query unspecified".into(),
            "a target commodity that occurs nowhere is 'commodity not found', not a conversion".into(),
        ]
    }
    fn min_nontrivial(&self, tier: Tier) -> u64 {
        tier.pick(4_000, 150_000)
    }
    fn chunk(&self, tier: Tier) -> u64 {
        tier.pick(200, 2000)
    }
}
