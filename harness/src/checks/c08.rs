//! C08 — value expressions evaluate as ordinary arithmetic with commodity typing.

use std::collections::BTreeMap;

use okane_core::report::query;
use serde_json::json;

use crate::checks::book::{run_code, to_multi, CodeError, CodeLedger};
use crate::cli;
use crate::engine::{guarded, Check, Ctx, Recorder, Tier};
use crate::model::book::{multi_to_string, Multi};
use crate::model::expr::{self, Op, Trace, Value, Verdict, V};
use crate::model::q::Q;
use crate::ops;
use crate::rng::Rng;

pub struct C08;

const DECLS: &str = "commodity USD\n\ncommodity EUR\n\ncommodity JPY\n\ncommodity AAPL\n\n";
/// The same commodities with display formats: evaluation stays exact whatever precision is declared.
const DECLS_FMT: &str = "commodity USD\n    format 1,000.00 USD\n\ncommodity EUR\n    format 1,000.0 EUR\n\ncommodity JPY\n    format 1,000 JPY\n\ncommodity AAPL\n    format 1,000.0000 AAPL\n\n";

/// The same commodities, two of them with an alias: an expression may spell a commodity either way.
const DECLS_ALIAS: &str = "commodity USD\n    alias Dollar\n\ncommodity EUR\n    alias Euro\n\ncommodity JPY\n\ncommodity AAPL\n\n";

/// Every other occurrence of `USD` / `EUR` (as a whole word) written through its alias.
fn through_aliases(text: &str) -> String {
    let mut out = String::new();
    let mut k = 0;
    let mut rest = text;
    loop {
        let (pos, name, alias) = match (rest.find("USD"), rest.find("EUR")) {
            (Some(a), Some(b)) if a < b => (a, "USD", "Dollar"),
            (Some(_), Some(b)) => (b, "EUR", "Euro"),
            (Some(a), None) => (a, "USD", "Dollar"),
            (None, Some(b)) => (b, "EUR", "Euro"),
            (None, None) => break,
        };
        out.push_str(&rest[..pos]);
        out.push_str(if k % 2 == 0 { alias } else { name });
        k += 1;
        rest = &rest[pos + 3..];
    }
    out.push_str(rest);
    out
}

thread_local! {
    static ERR_BOUND: std::cell::Cell<f64> = const { std::cell::Cell::new(0.0) };
}

/// Does the observed multi-commodity value match the model's (zero entries ignored)?
fn value_matches(got: &Multi, want: &BTreeMap<String, Q>, inexact: bool) -> bool {
    let want: Multi = want.iter().filter(|(_, q)| !q.is_zero()).map(|(c, q)| (c.clone(), *q)).collect();
    if !inexact {
        return got == &want;
    }
    // inexact: every commodity within the error bound the model derived for a 28-place decimal
    // evaluator (x16: the value may since have been multiplied by the quantity of a priced posting
    // and negated), plus 1e-27 relative. The difference is taken exactly; only the tolerance test
    // itself is done in floating point.
    let err = ERR_BOUND.with(|c| c.get());
    let keys: std::collections::BTreeSet<&String> = got.keys().chain(want.keys()).collect();
    for k in keys {
        let g = got.get(k).copied().unwrap_or(Q::ZERO);
        let w = want.get(k).copied().unwrap_or(Q::ZERO);
        let f = |q: Q| (q.n as f64 / q.d as f64).abs();
        let Some(diff) = g.sub(w) else {
            // the exact difference does not fit the model's i128 rationals (a 28-place decimal against
            // a fraction with an 11-digit denominator): compare in floating point
            let (a, b) = (g.n as f64 / g.d as f64, w.n as f64 / w.d as f64);
            if (a - b).abs() > err * 16.0 + b.abs().max(a.abs()) * 1e-14 + 1e-27 {
                return false;
            }
            continue;
        };
        let bound = err * 16.0 + f(w).max(f(g)) * 1e-27 + 1e-27;
        if f(diff) > bound {
            return false;
        }
    }
    true
}

fn ops_class(tr: &Trace) -> String {
    let mut ops: Vec<Op> = tr.ops.clone();
    ops.sort();
    ops.dedup();
    let mut s: String = ops.iter().map(|o| o.ch()).collect();
    if tr.had_neg {
        s.push('~');
    }
    if s.is_empty() {
        s.push_str("leaf");
    }
    s
}

/// What the model expects where an amount (possibly multi-commodity) is accepted: `eval`.
enum Want {
    Value(BTreeMap<String, Q>),
    /// rejection is fine, but if a value is produced it must be this one
    MayValue(BTreeMap<String, Q>),
    MustError(&'static str),
    Unspecified,
}

fn want_any_amount(v: &Verdict) -> Want {
    // a bare number that is zero (or not) only up to the rounding of an inexact intermediate
    // result: a 28-place evaluator may see it on either side of zero, so neither verdict is owed
    if let Verdict::Value(V::Num(q)) = v {
        let err = ERR_BOUND.with(|c| c.get());
        if err > 0.0 && (q.n as f64 / q.d as f64).abs() <= err * 16.0 + 1e-27 {
            return Want::Unspecified;
        }
    }
    match v {
        Verdict::Value(V::Num(q)) if q.is_zero() => Want::Value(BTreeMap::new()),
        Verdict::Value(V::Num(_)) => Want::MustError("non-zero-bare-number-as-amount"),
        Verdict::Value(V::Com(m)) => Want::Value(m.clone()),
        Verdict::MustError(e) => Want::MustError(e),
        _ => Want::Unspecified,
    }
}

/// ... where a single-commodity (or zero) amount is required: posting amount, assertion.
fn want_posting_amount(v: &Verdict) -> Want {
    match want_any_amount(v) {
        Want::Value(m) => {
            let nonzero = m.values().filter(|q| !q.is_zero()).count();
            if nonzero >= 2 {
                Want::MustError("multi-commodity-sum-as-single-amount")
            } else if m.len() >= 2 {
                // e.g. 1 USD + 1 EUR - 1 EUR: one non-zero commodity next to a zero one. Whether
                // that counts as a single amount is not stated; its value, if accepted, is.
                Want::MayValue(m)
            } else {
                Want::Value(m)
            }
        }
        w => w,
    }
}

struct Obs {
    result: Result<CodeLedger, CodeError>,
}

fn run_ledger(rec: &mut Recorder, label: &str, text: &str) -> Option<Obs> {
    let files = vec![(ops::ROOT.to_string(), text.to_string())];
    rec.op(label, text);
    let r = guarded(rec, || run_code(&files, ops::ROOT))?;
    Some(Obs { result: r })
}

fn posting_amount(l: &CodeLedger, txn: usize, post: usize) -> Multi {
    l.txns.get(txn).and_then(|t| t.get(post)).map(|p| p.1.clone()).unwrap_or_default()
}

impl C08 {
    fn check_tree(&self, ctx: &Ctx, rng: &mut Rng, rec: &mut Recorder, tree: &Value, spaced: bool, source: &str) {
        let mut sp_rng = rng.clone();
        let mut spacing = || if spaced { 0u8 } else { sp_rng.below(4) as u8 };
        let text = expr::render_value(tree, &mut spacing);
        let (verdict, tr) = expr::eval(tree);
        if verdict == Verdict::ModelOverflow {
            rec.skip();
            rec.count("model-overflow");
            return;
        }
        ERR_BOUND.with(|c| c.set(tr.err));
        let cls = ops_class(&tr);
        rec.count(&format!("source:{}", source));
        rec.count(&format!("spacing:{}", if spaced { "spaced" } else { "mixed" }));
        rec.count(&format!(
            "model:{}",
            match &verdict {
                Verdict::Value(V::Num(_)) => "number".to_string(),
                Verdict::Value(V::Com(m)) => format!("commodities-{}", m.len().min(3)),
                Verdict::MustError(e) => format!("must-error:{}", e),
                Verdict::Unspecified(e) => format!("unspecified:{}", e),
                Verdict::ModelOverflow => "overflow".into(),
            }
        ));
        if tr.inexact {
            rec.count("model:inexact-intermediate");
        }
        if matches!(verdict, Verdict::Unspecified(_)) {
            rec.skip();
        } else {
            rec.nontrivial(&text);
        }
        let model_desc = format!("{:?}", verdict);
        let wit = |ledger: &str, observed: String| json!({"expression": text, "model": model_desc, "input": ledger, "observed": observed});

        // ---- context 1: Ledger::eval
        {
            rec.op("Ledger::eval", &text);
            let variant = rng.below(3);
            rec.count(["eval:no-formats", "eval:formats-declared", "eval:aliases-declared"][variant as usize]);
            let files = vec![(ops::ROOT.to_string(), [DECLS, DECLS_FMT, DECLS_ALIAS][variant as usize].to_string())];
            let t2 = if variant == 2 { through_aliases(&text) } else { text.clone() };
            let got = guarded(rec, || {
                ops::with_processed(&files, ops::ROOT, None, |rctx, r| match r {
                    Err(e) => Err(format!("process failed: {}", e)),
                    Ok(l) => l
                        .eval(rctx, &t2, &query::EvalContext { date: chrono::NaiveDate::from_ymd_opt(2024, 1, 1).unwrap(), exchange: None })
                        .map(|a| to_multi(&a))
                        .map_err(|e| ops::render_error(&e)),
                })
            });
            if let Some(got) = got {
                self.judge(rec, "eval", &cls, &want_any_amount(&verdict), got.as_ref().map_err(|e| e.clone()), tr.inexact, |o| wit("", o));
            }
        }
        // ---- context 2: posting amount; the omitted sibling must receive the negation
        {
            let ledger = format!("{}2024/01/01 TXN1Q\n    Assets:A    {}\n    Assets:B\n", DECLS, text);
            if let Some(o) = run_ledger(rec, "posting-amount", &ledger) {
                let want = want_posting_amount(&verdict);
                let got = o.result.as_ref().map(|l| posting_amount(l, 0, 0)).map_err(|e| e.message.clone());
                let ok = self.judge(rec, "posting-amount", &cls, &want, got.as_ref().map_err(|e| e.clone()), tr.inexact, |ob| wit(&ledger, ob));
                if ok {
                    if let (Want::Value(m), Ok(l)) = (&want, &o.result) {
                        let neg: BTreeMap<String, Q> = m.iter().map(|(c, q)| (c.clone(), q.neg())).collect();
                        let b = posting_amount(l, 0, 1);
                        if !value_matches(&b, &neg, tr.inexact) {
                            rec.violation("inferred-sibling-not-negation", &format!("posting-amount|{}", cls), &format!("`{}` as amount: sibling received {}, expected {}", text, multi_to_string(&b), multi_to_string(&neg.into_iter().collect())), wit(&ledger, multi_to_string(&b)));
                        }
                    }
                }
            }
        }
        // ---- context 3: cost (@ rate / @@ total) on 10 AAPL; sibling receives -(10 * rate) or -total
        {
            let total = rng.chance(1, 2);
            let ledger = format!("{}2024/01/01 TXN1Q\n    Assets:A    10 AAPL {} {}\n    Assets:B\n", DECLS, if total { "@@" } else { "@" }, text);
            let want = match want_posting_amount(&verdict) {
                Want::Value(m) => match m.iter().next() {
                    // a per-unit price may be negative (the sibling then gets the opposite sign); a
                    // negative *total* is valued by its magnitude, which is not this property's business
                    Some((c, q)) if (q.signum() > 0 || (q.signum() < 0 && !total)) && c != "AAPL" => {
                        let v = if total { Some(q.neg()) } else { q.mul(Q::int(-10)) };
                        match v {
                            Some(v) => Want::Value([(c.clone(), v)].into_iter().collect()),
                            None => Want::Unspecified,
                        }
                    }
                    _ => Want::Unspecified, // zero, negative or empty price: not this property's business
                },
                Want::MayValue(_) => Want::Unspecified,
                w => w,
            };
            if let Some(o) = run_ledger(rec, if total { "cost-total" } else { "cost-rate" }, &ledger) {
                let got = o.result.as_ref().map(|l| posting_amount(l, 0, 1)).map_err(|e| e.message.clone());
                let ok = self.judge(rec, if total { "cost-total" } else { "cost-rate" }, &cls, &want, got.as_ref().map_err(|e| e.clone()), tr.inexact, |ob| wit(&ledger, ob));
                if ok {
                    if let (Want::Value(_), Ok(l)) = (&want, &o.result) {
                        let a = posting_amount(l, 0, 0);
                        let ten: Multi = [("AAPL".to_string(), Q::int(10))].into_iter().collect();
                        if a != ten {
                            rec.violation("priced-posting-amount-changed", &format!("cost|{}", cls), &format!("10 AAPL priced with `{}` stored as {}", text, multi_to_string(&a)), wit(&ledger, multi_to_string(&a)));
                        }
                    }
                }
            }
        }
        // ---- context 4: balance assertion `= expr` on a posting that moves exactly the model's value
        if let Want::Value(m) = want_posting_amount(&verdict) {
            let (c, v) = match m.iter().next() {
                Some((c, q)) => (c.clone(), *q),
                None => ("USD".to_string(), Q::ZERO),
            };
            if let Some((mant, scale)) = v.as_decimal_parts(12) {
                if !tr.inexact {
                    let lit = crate::gen::ledger::Dec::new(mant, scale).text();
                    let twin = crate::gen::ledger::Dec::new(mant + 1, scale).text();
                    for (amount, must_hold) in [(lit, true), (twin, false)] {
                        let ledger = format!("{}2024/01/01 TXN1Q\n    Assets:A    {} {} = {}\n    Assets:B\n", DECLS, amount, c, text);
                        let Some(o) = run_ledger(rec, "assertion", &ledger) else { continue };
                        match (&o.result, must_hold) {
                            (Ok(_), true) => rec.count("assertion:true-accepted"),
                            (Err(e), false) if e.kind == "BalanceAssertionFailure" => rec.count("assertion:false-rejected"),
                            (Err(e), true) => {
                                rec.violation("true-assertion-rejected", &format!("assertion|{}", cls), &format!("`= {}` after moving {} {} was rejected: {}", text, amount, c, e.message), wit(&ledger, e.rendered.clone()));
                            }
                            (Ok(_), false) => {
                                rec.violation("false-assertion-accepted", &format!("assertion|{}", cls), &format!("`= {}` after moving {} {} (one unit more than its value) was accepted", text, amount, c), wit(&ledger, "accepted".into()));
                            }
                            (Err(e), false) => {
                                rec.violation("false-assertion-other-error", &format!("assertion|{}|{}", e.kind, cls), &format!("`= {}`: expected an assertion failure, got {}", text, e.message), wit(&ledger, e.rendered.clone()));
                            }
                        }
                    }
                }
            }
        } else if let Want::MustError(why) = want_posting_amount(&verdict) {
            let ledger = format!("{}2024/01/01 TXN1Q\n    Assets:A    1 USD = {}\n    Assets:B\n", DECLS, text);
            if let Some(o) = run_ledger(rec, "assertion", &ledger) {
                if o.result.is_ok() {
                    rec.violation("accepted-must-error", &format!("assertion|{}", why), &format!("ill-typed `= {}` was accepted", text), wit(&ledger, "accepted".into()));
                } else {
                    rec.count("assertion:ill-typed-rejected");
                }
            }
        }
        // ---- context 5: lot price accepts a plain amount only
        if let Value::Leaf(a) = tree {
            if !a.commodity.is_empty() && a.num.mant > 0 && a.commodity != "AAPL" {
                let ledger = format!("{}2024/01/01 TXN1Q\n    Assets:A    10 AAPL {{{}}}\n    Assets:B\n", DECLS, text);
                if let Some(o) = run_ledger(rec, "lot-price", &ledger) {
                    let want: BTreeMap<String, Q> = [(a.commodity.clone(), a.num.q().mul(Q::int(-10)).unwrap())].into_iter().collect();
                    let got = o.result.as_ref().map(|l| posting_amount(l, 0, 1)).map_err(|e| e.message.clone());
                    self.judge(rec, "lot-price", &cls, &Want::Value(want), got.as_ref().map_err(|e| e.clone()), false, |ob| wit(&ledger, ob));
                }
            }
        }
        // ---- the real binary, a small sample
        // The command joins its arguments and evaluates them as one expression, so the outermost
        // parentheses may be left out and the words may arrive as separate arguments.
        let bare = match tree {
            Value::Paren(e) if rng.chance(1, 2) => Some(expr::render_add(e, &mut || 0u8)),
            _ => None,
        };
        let group_both_ends = bare.as_ref().map(|b| b.starts_with('(') && b.ends_with(')')).unwrap_or(false);
        if rng.chance(if group_both_ends { ctx.tier.pick(300, 100) } else { ctx.tier.pick(4, 2) }, 1000) {
            let dir = ctx.scratch.join("c08");
            let _ = std::fs::create_dir_all(&dir);
            let f = dir.join("decl.ledger");
            let with_formats = rng.chance(1, 2);
            let _ = std::fs::write(&f, if with_formats { DECLS_FMT } else { DECLS });
            let fs = f.to_string_lossy().into_owned();
            let cli_text = bare.clone().unwrap_or(text.clone());
            let split_words = bare.is_some() && rng.chance(1, 2);
            let mut argv: Vec<&str> = vec!["primitive", "eval", "--date", "2024-01-01", "-f", fs.as_str(), "--"];
            if split_words {
                argv.extend(cli_text.split(' ').filter(|w| !w.is_empty()));
            } else {
                argv.push(cli_text.as_str());
            }
            rec.count(&format!("cli:eval:{}{}{}", if bare.is_some() { "bare" } else { "parenthesised" }, if group_both_ends { "+groups-at-both-ends" } else { "" }, if split_words { "+split-argv" } else { "" }));
            rec.op("okane primitive eval (cli)", &cli_text);
            if let Ok(res) = cli::run_okane(&ctx.cli_a, &argv, &dir) {
                rec.count("cli:eval-runs");
                let got: Result<Multi, String> = if res.ok() {
                    crate::checks::book::parse_inline_amount(res.stdout.trim()).ok_or_else(|| format!("unreadable output `{}`", res.stdout.trim()))
                } else if res.code == Some(1) {
                    Err(res.stderr.lines().next().unwrap_or("").to_string())
                } else {
                    rec.violation("cli-eval-crashed", &res.class(), &format!("`okane primitive eval -- {}` ended with {}", text, res.class()), wit("", res.stderr.clone()));
                    return;
                };
                self.judge(rec, "cli-eval", &cls, &want_any_amount(&verdict), got.as_ref().map_err(|e| e.clone()), tr.inexact, |o| wit("", o));
            }
        }
        if rec.wants_sample() {
            rec.sample(json!({"expression": text, "model": model_desc}));
        }
    }

    /// Compares one observation with the model's expectation. Returns true if it agreed.
    fn judge<'a>(
        &self,
        rec: &mut Recorder,
        context: &str,
        cls: &str,
        want: &Want,
        got: Result<&'a Multi, String>,
        inexact: bool,
        wit: impl Fn(String) -> serde_json::Value,
    ) -> bool {
        match (want, got) {
            (Want::Unspecified, _) => {
                rec.count(&format!("{}:unspecified", context));
                true
            }
            (Want::MayValue(_), Err(_)) => {
                rec.count(&format!("{}:optional-rejected", context));
                true
            }
            (Want::MayValue(m), Ok(g)) => {
                if value_matches(g, m, inexact) {
                    rec.count(&format!("{}:optional-value-agrees", context));
                    true
                } else {
                    let w: Multi = m.iter().filter(|(_, q)| !q.is_zero()).map(|(c, q)| (c.clone(), *q)).collect();
                    rec.violation("value-differs", &format!("{}|zero-valued-commodity-alongside|{}", context, cls), &format!("{}: evaluated to {}, ordinary arithmetic gives {}", context, multi_to_string(g), multi_to_string(&w)), wit(multi_to_string(g)));
                    false
                }
            }
            (Want::Value(m), Ok(g)) => {
                if value_matches(g, m, inexact) {
                    rec.count(&format!("{}:value-agrees", context));
                    true
                } else {
                    let w: Multi = m.iter().filter(|(_, q)| !q.is_zero()).map(|(c, q)| (c.clone(), *q)).collect();
                    rec.violation("value-differs", &format!("{}|{}", context, cls), &format!("{}: evaluated to {}, ordinary arithmetic gives {}", context, multi_to_string(g), multi_to_string(&w)), wit(multi_to_string(g)));
                    false
                }
            }
            (Want::Value(m), Err(e)) => {
                let w: Multi = m.iter().filter(|(_, q)| !q.is_zero()).map(|(c, q)| (c.clone(), *q)).collect();
                rec.violation("rejected-must-value", &format!("{}|{}", context, cls), &format!("{}: well-typed expression worth {} was rejected: {}", context, multi_to_string(&w), e), wit(e.clone()));
                false
            }
            (Want::MustError(why), Ok(g)) => {
                rec.violation("accepted-must-error", &format!("{}|{}", context, why), &format!("{}: ill-typed expression ({}) produced {}", context, why, multi_to_string(g)), wit(multi_to_string(g)));
                false
            }
            (Want::MustError(_), Err(_)) => {
                rec.count(&format!("{}:ill-typed-rejected", context));
                true
            }
        }
    }
}

impl Check for C08 {
    fn id(&self) -> &'static str {
        "C08"
    }
    fn cases(&self, tier: Tier) -> u64 {
        expr::N_EXHAUSTIVE + tier.pick(40_000, 20_000_000)
    }
    fn run(&self, ctx: &Ctx, idx: u64, rec: &mut Recorder) {
        let mut rng = Rng::for_case(ctx.seed, "C08", idx);
        if idx < expr::N_EXHAUSTIVE {
            let tree = expr::small_tree(idx);
            // spaced rendering for every small tree; every 4th also with mixed spacing
            self.check_tree(ctx, &mut rng, rec, &tree, true, "exhaustive-small");
            if idx % 4 == 0 && !rec.has_violation() {
                self.check_tree(ctx, &mut rng, rec, &tree, false, "exhaustive-small");
            }
        } else if idx % 400 == 399 {
            // a tiny but non-zero bare number (a literal with 25-28 decimals, or a quotient of two
            // large numbers) is a non-zero bare number wherever an amount is required
            let lit = |m: i128, s: u32, c: &str| expr::Unary { neg: false, value: Value::Leaf(crate::gen::ledger::Amt::new(m, s, c)) };
            let tree = match rng.below(3) {
                0 => Value::Leaf(crate::gen::ledger::Amt::new(1 + rng.below(9) as i128, 25 + rng.below(4) as u32, "")),
                1 => Value::Paren(Box::new(expr::AddExpr {
                    first: expr::MulExpr { first: lit(1, 0, ""), rest: vec![(Op::Div, lit(4_000_000_000_000, 0, "")), (Op::Div, lit(4_000_000_000_000, 0, ""))] },
                    rest: vec![],
                })),
                _ => Value::Paren(Box::new(expr::AddExpr {
                    first: expr::MulExpr { first: lit(1, 26, ""), rest: vec![(Op::Div, lit(8, 0, ""))] },
                    rest: vec![(Op::Add, expr::MulExpr { first: lit(0, 0, ""), rest: vec![] })],
                })),
            };
            self.check_tree(ctx, &mut rng, rec, &tree, true, "tiny-bare-number");
        } else if idx % 400 == 398 {
            // a product beyond the representable range has no value: okane may stop (outside every
            // property) or report an error, but it cannot come back with a number
            let a = 10_000_000_000_000_000u128 + rng.below(80_000_000_000_000_000) as u128;
            let b = 8_000_000_000_000_000u128 + rng.below(1_000_000_000_000_000) as u128;
            let big = |rng: &mut Rng| 40_000_000_000_000_000_000_000_000_000u128 + rng.below(1_000_000_000) as u128 * 30_000_000_000_000_000_000u128;
            let text = match rng.below(4) {
                0 => format!("({} USD * {})", a, b),
                1 => format!("({} * {} USD)", b, a),
                // two amounts that fit, whose sum or difference does not
                2 => format!("({} USD + {} USD)", big(&mut rng), big(&mut rng)),
                _ => format!("(-{} USD - {} USD)", big(&mut rng), big(&mut rng)),
            };
            rec.op("Ledger::eval (product beyond the decimal range)", &text);
            rec.nontrivial(&text);
            let files = vec![(ops::ROOT.to_string(), DECLS.to_string())];
            let t2 = text.clone();
            let before = rec.excuse_decimal_overflow;
            rec.excuse_decimal_overflow = true;
            let got = guarded(rec, || {
                ops::with_processed(&files, ops::ROOT, None, |rctx, r| match r {
                    Err(e) => Err(format!("process failed: {}", e)),
                    Ok(l) => l
                        .eval(rctx, &t2, &query::EvalContext { date: chrono::NaiveDate::from_ymd_opt(2024, 1, 1).unwrap(), exchange: None })
                        .map(|a| multi_to_string(&to_multi(&a)))
                        .map_err(|e| ops::render_error(&e)),
                })
            });
            rec.excuse_decimal_overflow = before;
            match got {
                Some(Ok(v)) => rec.violation("overflowing-product-yields-a-value", "eval", &format!("`{}` (about {:.1e}) evaluated to {}", text, a as f64 * b as f64, v), json!({"expression": text, "observed": v})),
                Some(Err(_)) => rec.count("beyond-range:rejected"),
                None => rec.count("beyond-range:stopped"),
            }
        } else {
            let tree = expr::random_tree(&mut rng);
            let spaced = rng.chance(2, 3);
            self.check_tree(ctx, &mut rng, rec, &tree, spaced, "random");
        }
    }
    fn rule(&self) -> String {
        format!(
            "Cases 0..{n}: every expression with 1-3 leaves over the literals 0, 2, 0.5, 0 USD, 3 USD, 1.5 EUR, each optionally under unary minus, all operator \
             combinations, shapes `a o b o c`, `(a o b) o c`, `-(a o b) o c`, `a o (b o c)`, `a o -(b o c)` (exhaustive). Beyond: random trees of depth 1-4 with 2-8 \
             leaves over 17 values x {{bare, USD, EUR, JPY}}, literals with their own minus sign, operators rendered ` op `, `op`, ` op`, `op ` at random. \
             Each expression is used as Ledger::eval argument, posting amount (sibling must receive the negation), cost `@`/`@@` on 10 AAPL (sibling must \
             receive -(10*rate) / -total), balance assertion (true on its value, false one unit off), lot price (plain amounts only), and a sample through \
             `okane primitive eval`. One case in 400 is a tiny non-zero bare number (must be rejected where an amount is required), one in 400 a product, sum or difference beyond the decimal range (must not come back with a value). Oracle: harness/src/model/expr.rs (exact rationals, left fold, commodity typing; three-valued). Values are compared \
             exactly unless an intermediate result is not representable as a 96-bit/28-place decimal (then within sixteen times the error bound the model derives for a 28-place decimal evaluator, plus 1e-27 relative). Non-trivial = expression with a \
             specified outcome; distinct by text.",
            n = expr::N_EXHAUSTIVE
        )
    }
    fn assumptions(&self) -> Vec<String> {
        vec![
            "number / single-commodity amount and commodity / commodity are unspecified by the statement (any outcome but a crash is accepted); number / a sum of two or more non-zero commodities must be rejected".into(),
            "a sum with one non-zero commodity next to a zero-valued one (1 USD + 1 EUR - 1 EUR) where a single amount is required is unspecified".into(),
            "zero or negative prices built from expressions belong to C01 and are not judged here".into(),
            "evaluation is strict: an ill-typed sub-expression makes the whole expression ill-typed".into(),
        ]
    }
    fn exhaustive(&self, _tier: Tier) -> Option<String> {
        Some(format!("all {} expressions with <= 3 leaves over 6 literals x optional unary minus x 4 operators x 5 shapes; random trees beyond are sampled", expr::N_EXHAUSTIVE))
    }
    fn min_nontrivial(&self, tier: Tier) -> u64 {
        tier.pick(30_000, 300_000)
    }
    fn chunk(&self, tier: Tier) -> u64 {
        tier.pick(4000, 20000)
    }
}
