//! C17 — rewrite rules and layered configuration resolve as documented.

use std::path::PathBuf;

use serde_json::json;

use crate::checks::import_common::{csv_cell, run_import, select_config, yaml_str};
use crate::engine::{guarded, Check, Ctx, Recorder, Tier};
use crate::rng::Rng;

pub struct C17;

#[derive(Clone, Debug)]
struct FieldPat {
    field: &'static str, // "payee" | "category"
    pattern: &'static str,
}

#[derive(Clone, Debug)]
struct RuleSpec {
    /// OR-list of AND-maps
    matcher: Vec<Vec<FieldPat>>,
    or_syntax: bool,
    account: Option<&'static str>,
    payee: Option<&'static str>,
    pending: bool,
}

#[derive(Clone, Debug)]
struct DocSpec {
    path: String,
    account: Option<&'static str>,
    account_type: Option<&'static str>,
    commodity: Option<&'static str>,
    operator: Option<&'static str>,
    date_format: Option<&'static str>,
    /// which optional columns the document's `format.fields` maps: 0 = category and
    /// secondary_commodity, 1 = no category, 2 = no secondary_commodity (a `format` replaces an
    /// earlier one as a whole; a matcher on an unmapped field has nothing to match)
    fields: u8,
    encoding: bool,
    rules: Vec<RuleSpec>,
}

#[derive(Clone, Debug)]
struct Record {
    payee: &'static str,
    category: &'static str,
    secondary: &'static str,
    amount_cents: i64,
}

// (field, pattern) pool; at most one capturing matcher is used per AND-map
const PAYEE_PATTERNS: &[&str] = &[
    "Debit Card (?P<code>\\d+) (?P<payee>.*)",
    "(?P<payee>Migros|Coop)",
    "migros",
    "^SBB",
    "Salary",
    "ATM",
    "五反田",
    "^Coop$",
    "^Employer Inc$",
    "shop$",
    "(?P<code>\\d{3,})",
    "Zürich",
    // groups that can take part in the match with an empty capture
    "Coop(?P<code>\\d*)",
    "^(?P<payee>.*)Migros",
    "Transfer (?P<code>[a-z]*)(?P<payee>.*)",
    // blanks at the edge of a pattern are significant
    "^ATM ",
    " Shop$",
];
const CATEGORY_PATTERNS: &[&str] = &["Travel|Cash", "^Groceries$", "income", "Misc", "^(?:Misc)?$", ".*"];
/// `secondary_commodity` patterns (this matcher sorts after `payee`, so in one AND-map the payee
/// matcher, captures included, is evaluated before it)
const SECONDARY_PATTERNS: &[&str] = &["EUR", "^JPY$", "USD|EUR", "^$", "."];
const RECORD_SECONDARY: &[&str] = &["", "", "EUR", "JPY", "USD"];
const ACCOUNTS: &[&str] = &["Expenses:Grocery", "Expenses:Travel", "Income:Salary", "Assets:Cash", "Expenses:Misc", "Assets:Wire"];
const RECORD_PAYEES: &[&str] = &["Debit Card 31415 Coop", "debit card 999 MIGROS Zürich", "SBB CFF FFS", "Salary October", "ATM 五反田", "Unknown Shop", "Coop", "Migros", "Transfer 0042", "sbb ticket", "ATMOS Energy", "Workshop"];
const RECORD_CATEGORIES: &[&str] = &["Groceries", "Travel", "Income", "Cash", "Misc", ""];

fn gen_rule(rng: &mut Rng) -> RuleSpec {
    let n_or = if rng.chance(1, 4) { 2 + rng.usize(2) } else { 1 };
    let mut matcher = Vec::new();
    for _ in 0..n_or {
        let mut and = vec![FieldPat { field: "payee", pattern: rng.pick_str(PAYEE_PATTERNS) }];
        match rng.below(6) {
            0 => and = vec![FieldPat { field: "category", pattern: rng.pick_str(CATEGORY_PATTERNS) }],
            1 | 2 => and.push(FieldPat { field: "category", pattern: rng.pick_str(CATEGORY_PATTERNS) }),
            3 => and.push(FieldPat { field: "secondary_commodity", pattern: rng.pick_str(SECONDARY_PATTERNS) }),
            _ => {}
        }
        matcher.push(and);
    }
    RuleSpec {
        or_syntax: n_or > 1 || rng.chance(1, 5),
        matcher,
        account: if rng.chance(2, 3) { Some(rng.pick_str(ACCOUNTS)) } else { None },
        payee: if rng.chance(1, 6) { Some(rng.pick_str(&["Employer Inc", "Coop", "Renamed Payee"])) } else { None },
        pending: rng.chance(1, 3),
    }
}

fn rule_yaml(r: &RuleSpec, out: &mut String) {
    out.push_str("  - matcher:\n");
    for and in &r.matcher {
        let mut first = true;
        for fp in and {
            let lead = if r.or_syntax {
                if first {
                    "      - "
                } else {
                    "        "
                }
            } else {
                "      "
            };
            out.push_str(&format!("{}{}: {}\n", lead, fp.field, yaml_str(fp.pattern)));
            first = false;
        }
    }
    if let Some(a) = r.account {
        out.push_str(&format!("    account: {}\n", yaml_str(a)));
    }
    if let Some(p) = r.payee {
        out.push_str(&format!("    payee: {}\n", yaml_str(p)));
    }
    if r.pending {
        out.push_str("    pending: true\n");
    }
}

fn doc_yaml(d: &DocSpec) -> String {
    let mut y = format!("path: {}\n", yaml_str(&d.path));
    if d.encoding {
        y.push_str("encoding: UTF-8\n");
    }
    if let Some(a) = d.account {
        y.push_str(&format!("account: {}\n", yaml_str(a)));
    }
    if let Some(a) = d.account_type {
        y.push_str(&format!("account_type: {}\n", a));
    }
    if let Some(c) = d.commodity {
        y.push_str(&format!("commodity: {}\n", c));
    }
    if let Some(o) = d.operator {
        y.push_str(&format!("operator: {}\n", yaml_str(o)));
    }
    if let Some(f) = d.date_format {
        y.push_str(&format!("format:\n  date: {}\n  fields:\n    date: 1\n    amount: 2\n    payee: 3\n", yaml_str(f)));
        if d.fields != 1 {
            y.push_str("    category: 4\n");
        }
        if d.fields != 2 {
            y.push_str("    secondary_commodity: 5\n");
        }
    }
    if !d.rules.is_empty() {
        y.push_str("rewrite:\n");
        for r in &d.rules {
            rule_yaml(r, &mut y);
        }
    }
    y
}

/// The documented resolution: documents whose path occurs in the file path, shortest path first
/// (document order among equal lengths), later scalars win, rules concatenated.
struct Merged {
    path: String,
    account: &'static str,
    account_type: &'static str,
    commodity: &'static str,
    operator: Option<&'static str>,
    date_format: &'static str,
    fields: u8,
    rules: Vec<RuleSpec>,
}

fn merge(docs: &[DocSpec], file_path: &str) -> Option<Merged> {
    let mut matched: Vec<&DocSpec> = docs.iter().filter(|d| file_path.contains(&d.path)).collect();
    matched.sort_by_key(|d| d.path.len()); // stable
    let first = matched.first()?;
    let mut m = Merged { path: first.path.clone(), account: "", account_type: "", commodity: "", operator: None, date_format: "", fields: 0, rules: vec![] };
    for d in matched {
        m.path = d.path.clone();
        if let Some(a) = d.account {
            m.account = a;
        }
        if let Some(a) = d.account_type {
            m.account_type = a;
        }
        if let Some(c) = d.commodity {
            m.commodity = c;
        }
        if d.operator.is_some() {
            m.operator = d.operator;
        }
        if let Some(f) = d.date_format {
            m.date_format = f;
            m.fields = d.fields;
        }
        m.rules.extend(d.rules.iter().cloned());
    }
    Some(m)
}

thread_local! {
    static REGEX_CACHE: std::cell::RefCell<std::collections::HashMap<&'static str, regex::Regex>> = std::cell::RefCell::new(std::collections::HashMap::new());
}

fn compiled(pattern: &'static str) -> regex::Regex {
    REGEX_CACHE.with(|c| {
        c.borrow_mut()
            .entry(pattern)
            .or_insert_with(|| regex::RegexBuilder::new(pattern).case_insensitive(true).build().expect("pattern pool compiles"))
            .clone()
    })
}

struct Folded {
    payee: String,
    code: Option<String>,
    account: Option<&'static str>,
    cleared: bool,
    fired: Vec<usize>,
}

fn fold(rules: &[RuleSpec], rec: &Record, fields: u8) -> Folded {
    let mut f = Folded { payee: rec.payee.to_string(), code: None, account: None, cleared: false, fired: vec![] };
    for (ri, r) in rules.iter().enumerate() {
        // first AND-map all of whose fields match, looking at the payee as rewritten so far
        let mut hit: Option<(Option<String>, Option<String>)> = None;
        'or: for and in &r.matcher {
            let mut cap_payee = None;
            let mut cap_code = None;
            for fp in and {
                let re = compiled(fp.pattern);
                match fp.field {
                    "payee" => match re.captures(&f.payee) {
                        Some(c) => {
                            if let Some(p) = c.name("payee") {
                                cap_payee = Some(p.as_str().to_string());
                            }
                            if let Some(p) = c.name("code") {
                                cap_code = Some(p.as_str().to_string());
                            }
                        }
                        None => continue 'or,
                    },
                    "secondary_commodity" => {
                        // (an empty cell is matched like any other text, as for the category; an
                        // unmapped field is absent and matches nothing)
                        if fields == 2 || !re.is_match(rec.secondary) {
                            continue 'or;
                        }
                    }
                    _ => {
                        if fields == 1 || !re.is_match(rec.category) {
                            continue 'or;
                        }
                    }
                }
            }
            hit = Some((cap_payee, cap_code));
            break;
        }
        let Some((cap_payee, cap_code)) = hit else { continue };
        f.fired.push(ri);
        if let Some(p) = cap_payee {
            f.payee = p;
        }
        if let Some(c) = cap_code {
            f.code = Some(c);
        }
        if let Some(p) = r.payee {
            f.payee = p.to_string();
        }
        if let Some(a) = r.account {
            f.account = Some(a);
            if !r.pending {
                f.cleared = true;
            }
        }
    }
    f
}

impl Check for C17 {
    fn id(&self) -> &'static str {
        "C17"
    }
    fn cases(&self, tier: Tier) -> u64 {
        tier.pick(20_000, 1_000_000)
    }
    fn run(&self, ctx: &Ctx, idx: u64, rec: &mut Recorder) {
        let mut rng = Rng::for_case(ctx.seed, "C17", idx);
        let dir = ctx.scratch.join(format!("c17-{}", idx));
        let file_rel = "bank/checking/2021/stmt.csv";
        let src: PathBuf = dir.join(file_rel);
        // documents: a complete base document plus 0-4 partial ones
        // the last four do not occur in the file path although they would without their final slash
        let path_pool = ["", "bank/checking/", "checking", "2021/", "stmt.csv", "other/", "k/ch", "bank/", "/2021/stmt", "ing/2", "ban/", "check/", "202/", "stmt/"];
        let mut docs = vec![DocSpec {
            path: "bank/".to_string(),
            account: Some("Assets:Base Bank"),
            account_type: Some("asset"),
            commodity: Some("CHF"),
            operator: if rng.chance(1, 2) { Some("Generic Bank") } else { None },
            date_format: Some("%Y-%m-%d"),
            fields: 0,
            encoding: true,
            rules: (0..rng.usize(4)).map(|_| gen_rule(&mut rng)).collect(),
        }];
        for _ in 0..rng.usize(5) {
            docs.push(DocSpec {
                path: rng.pick_str(&path_pool).to_string(),
                account: if rng.chance(1, 2) { Some(rng.pick_str(&["Assets:Checking", "Assets:Other", "Liabilities:Card"])) } else { None },
                account_type: if rng.chance(1, 4) { Some(rng.pick_str(&["asset", "liability"])) } else { None },
                commodity: if rng.chance(1, 3) { Some(rng.pick_str(&["USD", "EUR", "JPY"])) } else { None },
                operator: if rng.chance(1, 3) { Some(rng.pick_str(&["Some Operator", "Branch Office", "Card Services (fee)"])) } else { None },
                date_format: if rng.chance(1, 3) { Some(rng.pick_str(&["%Y/%m/%d", "%d.%m.%Y"])) } else { None },
                fields: *rng.pick(&[0u8, 0, 1, 2]),
                encoding: rng.chance(1, 4),
                rules: (0..rng.usize(4)).map(|_| gen_rule(&mut rng)).collect(),
            });
        }
        // a document may restate, word for word, a rule that another document (or itself) already has
        for k in 0..docs.len() {
            if rng.chance(1, 4) {
                let all: Vec<RuleSpec> = docs.iter().flat_map(|d| d.rules.iter().cloned()).collect();
                if !all.is_empty() {
                    let r = rng.pick(&all).clone();
                    docs[k].rules.push(r);
                }
            }
        }
        // document order in the file is random (the base document is not necessarily first)
        rng.shuffle(&mut docs);
        let config_yaml: String = docs.iter().map(doc_yaml).collect::<Vec<_>>().join("---\n");
        let file_path = src.to_string_lossy().into_owned();
        let Some(m) = merge(&docs, &file_path) else {
            rec.skip();
            return;
        };
        // records
        let n = 1 + rng.usize(6);
        let records: Vec<Record> = (0..n)
            .map(|_| Record { payee: rng.pick_str(RECORD_PAYEES), category: rng.pick_str(RECORD_CATEGORIES), secondary: rng.pick_str(RECORD_SECONDARY), amount_cents: if rng.chance(1, 2) { rng.range(1, 90000) } else { -rng.range(1, 90000) } })
            .collect();
        let day = chrono::NaiveDate::from_ymd_opt(2021, 9, 1).unwrap();
        let mut csv = String::from("date,amount,payee,category,foreign\n");
        for (k, r) in records.iter().enumerate() {
            let d = day + chrono::Duration::days(k as i64);
            // amount column: negated for liability accounts, so that the account movement is amount_cents
            let shown = if m.account_type == "liability" { -r.amount_cents } else { r.amount_cents };
            csv.push_str(&format!("{},{}.{:02},{},{},{}\n", d.format(m.date_format), if shown < 0 { format!("-{}", shown.abs() / 100) } else { format!("{}", shown / 100) }, shown.abs() % 100, csv_cell(r.payee), csv_cell(r.category), r.secondary));
        }
        // one case in six reaches the statement through a symbolic link: `bank` points to a directory
        // of another name, and it is the path as given that selects the configuration
        let via_symlink = rng.chance(1, 6);
        let made = if via_symlink {
            let real = dir.join("zz-real");
            std::fs::create_dir_all(real.join("checking/2021")).is_ok() && std::os::unix::fs::symlink(&real, dir.join("bank")).is_ok()
        } else {
            std::fs::create_dir_all(src.parent().unwrap()).is_ok()
        };
        if !made {
            rec.skip();
            return;
        }
        if via_symlink {
            rec.count("statement-reached-through-symlink");
        }
        let cfg = dir.join("config.yml");
        let _ = std::fs::write(&cfg, &config_yaml);
        let _ = std::fs::write(&src, &csv);
        let input = format!("=== config ({} documents)\n{}=== {}\n{}", docs.len(), config_yaml, file_rel, csv);
        rec.op("ConfigSet::select + import", &input);
        let cy = config_yaml.clone();
        let sp = src.clone();
        let selected = guarded(rec, || select_config(&cy, &sp));
        let imported = guarded(rec, || run_import(&cfg, &config_yaml, &src, &csv));
        let _ = std::fs::remove_dir_all(&dir);
        let (Some(selected), Some(imported)) = (selected, imported) else { return };
        rec.nontrivial(&input);
        let matching = docs.iter().filter(|d| file_path.contains(&d.path)).count();
        rec.count(&format!("matching-documents:{}", matching.min(4)));
        let equal_len = {
            let mut lens: Vec<usize> = docs.iter().filter(|d| file_path.contains(&d.path)).map(|d| d.path.len()).collect();
            lens.sort();
            lens.windows(2).any(|w| w[0] == w[1])
        };
        if equal_len {
            rec.count("matching-documents-with-equal-path-length");
        }
        let wit = |extra: serde_json::Value| json!({"config": config_yaml, "csv": csv, "file": file_rel, "detail": extra});
        let class = format!("docs={}{}", matching.min(4), if equal_len { "|equal-length-paths" } else { "" });
        let sel = match selected {
            Ok(s) => s,
            Err(e) => {
                rec.violation("select-failed", &class, &format!("ConfigSet::select failed although the merged configuration is complete: {}", e), wit(json!({"error": e})));
                return;
            }
        };
        // ---- layering
        let got_type = format!("{:?}", sel.account_type).to_lowercase();
        let scalars_ok = sel.account == m.account && got_type == m.account_type && sel.commodity.primary == m.commodity && sel.operator.as_deref() == m.operator && sel.format.date == m.date_format && sel.path == m.path;
        if !scalars_ok {
            rec.violation(
                "merged-scalars-differ",
                &class,
                &format!(
                    "selected account {:?}/{}/{}/operator {:?}/date {:?}/path {:?}; documented merge gives {:?}/{}/{}/{:?}/{:?}/{:?}",
                    sel.account, got_type, sel.commodity.primary, sel.operator, sel.format.date, sel.path, m.account, m.account_type, m.commodity, m.operator, m.date_format, m.path
                ),
                wit(json!({})),
            );
            return;
        }
        let got_rules: Vec<(Option<String>, Option<String>, bool)> = sel.rewrite.iter().map(|r| (r.account.clone(), r.payee.clone(), r.pending)).collect();
        let want_rules: Vec<(Option<String>, Option<String>, bool)> = m.rules.iter().map(|r| (r.account.map(|s| s.to_string()), r.payee.map(|s| s.to_string()), r.pending)).collect();
        if got_rules != want_rules || sel.rewrite.len() != m.rules.len() {
            rec.violation("merged-rules-differ", &class, &format!("{} rules selected, the documented concatenation has {} (or their order differs)", sel.rewrite.len(), m.rules.len()), wit(json!({"selected": format!("{:?}", got_rules), "expected": format!("{:?}", want_rules)})));
            return;
        }
        rec.count("layering-agrees");
        // ---- rule fold, observed on the imported transactions
        let imp = match imported {
            Ok(i) => i,
            Err(e) => {
                rec.violation("import-failed", &class, &format!("import failed: {}", e), wit(json!({"error": e})));
                return;
            }
        };
        // what the command prints is what the selected configuration produces
        {
            use okane_core::parse::{parse_ledger, ParseOptions};
            let text = imp.text.clone();
            let parsed: Result<Vec<_>, _> = parse_ledger::<okane_core::syntax::plain::Ident>(&ParseOptions::default(), &text).collect();
            if let Ok(v) = parsed {
                let printed: Vec<String> = v.iter().map(|(_, e)| crate::checks::c15::normalise(&crate::gen::syntax::dump_entry(e)).0).collect();
                let built: Vec<String> = imp.tree_dumps.iter().map(|d| crate::checks::c15::normalise(d).0).collect();
                if printed != built {
                    rec.violation(
                        "printed-import-differs-from-selected-configuration",
                        if via_symlink { "through-symlink" } else { "plain-path" },
                        "the transactions printed by the import command are not those the selected configuration produces",
                        wit(json!({"output": imp.text})),
                    );
                    return;
                }
            }
        }
        if imp.txns.len() != records.len() {
            rec.violation("record-count-differs", &class, &format!("{} records, {} transactions", records.len(), imp.txns.len()), wit(json!({"output": imp.text})));
            return;
        }
        for (r, t) in records.iter().zip(imp.txns.iter()) {
            let f = fold(&m.rules, r, m.fields);
            rec.count(&format!("rules-fired:{}", f.fired.len().min(3)));
            let counter: Vec<_> = t.posts.iter().filter(|p| p.account != m.account).collect();
            let want_account = f.account.unwrap_or(if r.amount_cents > 0 { "Income:Unknown" } else { "Expenses:Unknown" });
            let want_state = if f.cleared { '.' } else { '!' };
            let shape = format!("rules-fired={}|{}", f.fired.len().min(3), if f.account.is_some() { "account-assigned" } else { "no-account" });
            let desc = |what: &str| format!("record `{}` / `{}` ({}): {}; rules fired (0-based): {:?}", r.payee, r.category, r.amount_cents, what, f.fired);
            if t.payee != f.payee {
                rec.violation("payee-differs", &format!("{}|{}", class, shape), &desc(&format!("payee `{}`, documented fold gives `{}`", t.payee, f.payee)), wit(json!({"output": imp.text})));
                return;
            }
            if t.code != f.code {
                rec.violation("code-differs", &format!("{}|{}", class, shape), &desc(&format!("code {:?}, documented fold gives {:?}", t.code, f.code)), wit(json!({"output": imp.text})));
                return;
            }
            if counter.len() != 1 || counter[0].account != want_account {
                rec.violation("counter-account-differs", &format!("{}|{}", class, shape), &desc(&format!("counter account {:?}, documented fold gives {}", counter.iter().map(|p| p.account.clone()).collect::<Vec<_>>(), want_account)), wit(json!({"output": imp.text})));
                return;
            }
            if counter[0].state != want_state {
                rec.violation(
                    "pending-mark-differs",
                    &format!("{}|{}|{}", class, shape, if want_state == '!' { "should-be-pending" } else { "should-be-cleared" }),
                    &desc(&format!("counter posting state `{}`, documented fold gives `{}`", counter[0].state, want_state)),
                    wit(json!({"output": imp.text})),
                );
                return;
            }
        }
        rec.count("fold-agrees");
        if rec.wants_sample() {
            rec.sample(json!({"config": config_yaml, "csv": csv, "output": imp.text}));
        }
    }
    fn rule(&self) -> String {
        "Each case: 1-5 YAML configuration documents in random order - one complete base document (`bank/`) and partial ones whose `path` is a substring of the \
         file path (the empty string, `bank/checking/`, `checking`, `2021/`, `stmt.csv`, `k/ch`, `/2021/stmt`, `ing/2`, with equal-length paths occurring) or not occurring in it (`other/`, and `ban/`, `check/`, `202/`, `stmt/`, which would occur without their final slash), each \
         overriding a random subset of account, account_type, commodity, operator, encoding, format (date format) and carrying 0-3 rewrite rules. Rules draw regexes \
         from a pool (capture groups payee / code, case variations, anchors, Unicode) on payee and category, as single maps, AND-maps or OR-lists of AND-maps (at most \
         one capturing matcher per map), with account / payee / pending in all combinations; rules that only fire on a payee rewritten by an earlier rule are in the \
         pool. 1-6 CSV records drawn to hit 0-3 rules. Oracle: ConfigSet::select(file) equals the documented merge (matching documents, shortest path first, document \
         order among equal lengths, later scalars win, rules concatenated; every field and the rule sequence compared); every imported transaction's payee, code, \
         counter account (or Income:Unknown / Expenses:Unknown by sign) and pending mark equal the documented fold computed with the same regex engine. \
         Non-trivial = every case; distinct by config + CSV."
            .to_string()
    }
    fn assumptions(&self) -> Vec<String> {
        vec![
            "among matching documents with equal path length the order is the order in the configuration file (stable sort)".into(),
            "at most one capturing matcher per AND-map, so the captured payee does not depend on evaluation order inside a map".into(),
            "regular expressions are evaluated by the same regex crate in the model; only the fold logic is independent".into(),
        ]
    }
    fn min_nontrivial(&self, tier: Tier) -> u64 {
        tier.pick(10_000, 300_000)
    }
}
