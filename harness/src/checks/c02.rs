//! C02 — balance assertions are enforced exactly and in file order.

use crate::checks::book;
use crate::engine::{Check, Ctx, Recorder, Tier};
use crate::gen::bookgen;

pub struct C02;

impl Check for C02 {
    fn id(&self) -> &'static str {
        "C02"
    }
    fn cases(&self, tier: Tier) -> u64 {
        tier.pick(120_000, 10_000_000)
    }
    fn run(&self, ctx: &Ctx, idx: u64, rec: &mut Recorder) {
        book::run_book_case("C02", bookgen::P_ASSERT, ctx, idx, rec);
    }
    fn rule(&self) -> String {
        "Histories of 0-5 accepted transactions followed by one more; 45% of the postings with an amount carry `= X` derived from \
         the reference model's running balance of that account: the true balance in one of the held commodities (or `= 0` / \
         `0 C` when empty), the same off by exactly one unit of the written precision, the balance as it was *before* the posting \
         (true one position earlier), a bare `= 0` regardless of holdings, or a commodity the account does not hold; several on one \
         account inside one transaction; after assigned (`Acct = X`) and inferred amounts; multi-commodity accounts. Oracle: \
         the model replays postings in file order on exact rationals; a ledger whose assertions are all true must be accepted, \
         otherwise rejected with BalanceAssertionFailure whose `-->` line is the posting's line and whose computed balance and \
         difference equal the model's (compared as sets of terms). Hook events give the number of assertions actually evaluated. A quarter of the cases are written through declared account / commodity aliases and one in six is cut at entry boundaries into a tree of included files on the in-memory file system (diagnostics must then name the posting's own file and line). \
         Non-trivial = final transaction has a specified outcome; distinct by ledger text."
            .to_string()
    }
    fn assumptions(&self) -> Vec<String> {
        vec![
            "reference model harness/src/model/book.rs is a correct reading of the C02 statement".into(),
            "an omitted-amount posting takes effect at its file position (statement: 'that posting and everything before it in file order')".into(),
            "an assignment following an omitted amount on the same account in one transaction is unspecified (circular)".into(),
        ]
    }
    fn min_nontrivial(&self, tier: Tier) -> u64 {
        tier.pick(50_000, 4_000_000)
    }
}
