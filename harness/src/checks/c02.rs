//! C02 — balance assertions are enforced exactly and in file order.

use crate::checks::book;
use crate::engine::{Check, Ctx, Recorder, Tier};
use crate::gen::bookgen;

pub struct C02;

/// A running balance driven across the edge of the representable range (about 7.9e28) and back, and
/// then an assertion that is false by exact arithmetic but true if the balance was clamped at the
/// edge. Leaving the range is outside every property (okane stops there); what must not happen is
/// that the run succeeds with that assertion in it.
fn near_range_case(ctx: &Ctx, idx: u64, rec: &mut Recorder) {
    use crate::engine::guarded;
    use crate::rng::Rng;
    let mut rng = Rng::for_case(ctx.seed, "C02-range", idx);
    const MAX: u128 = 79_228_162_514_264_337_593_543_950_335;
    let a: u128 = (40 + rng.below(35) as u128) * 1_000_000_000_000_000_000_000_000_000 + rng.below(1_000_000) as u128;
    let b: u128 = MAX - a + 1 + rng.below(1_000_000_000) as u128; // a + b > MAX
    let c: u128 = (10 + rng.below(30) as u128) * 1_000_000_000_000_000_000_000_000_000;
    let clamped = MAX - c;
    let com = rng.pick_str(&["JPY", "USD", "EUR"]);
    let text = format!(
        "2024/01/01 first\n    Assets:Vault    {a} {com}\n    Equity:Opening\n\n2024/01/02 second\n    Assets:Vault    {b} {com}\n    Equity:Other\n\n2024/01/03 third\n    Assets:Vault    -{c} {com} = {clamped} {com}\n    Equity:Third\n"
    );
    rec.op("report::process (balance across the edge of the decimal range)", &text);
    rec.nontrivial(&text);
    let files = vec![(crate::ops::ROOT.to_string(), text.clone())];
    // a panic on leaving the range is excused by `guarded`; any error is fine as well
    let before = rec.excuse_decimal_overflow;
    rec.excuse_decimal_overflow = true;
    let outcome = guarded(rec, || book::run_code(&files, crate::ops::ROOT));
    rec.excuse_decimal_overflow = before;
    match outcome {
        Some(Ok(_)) => rec.violation(
            "false-assertion-accepted",
            "balance-clamped-at-the-edge-of-the-decimal-range",
            &format!("after {a} + {b} - {c} {com} the assertion `= {clamped} {com}` was accepted (exact balance: {})", a + b - c),
            serde_json::json!({"ledger": text}),
        ),
        Some(Err(_)) => rec.count("near-range:rejected"),
        None => rec.count("near-range:stopped-at-the-edge"),
    }
}

impl Check for C02 {
    fn id(&self) -> &'static str {
        "C02"
    }
    fn cases(&self, tier: Tier) -> u64 {
        tier.pick(120_000, 10_000_000)
    }
    fn run(&self, ctx: &Ctx, idx: u64, rec: &mut Recorder) {
        if idx % 500 == 499 {
            return near_range_case(ctx, idx, rec);
        }
        book::run_book_case("C02", bookgen::P_ASSERT, ctx, idx, rec);
    }
    fn rule(&self) -> String {
        "Histories of 0-5 accepted transactions followed by one more; 45% of the postings with an amount carry `= X` derived from \
         the reference model's running balance of that account: the true balance in one of the held commodities (or `= 0` / \
         `0 C` when empty), the same off by exactly one unit of the written precision, the balance as it was *before* the posting \
         (true one position earlier), a bare `= 0` regardless of holdings, or a commodity the account does not hold; several on one \
         account inside one transaction; after assigned (`Acct = X`) and inferred amounts; multi-commodity accounts. Oracle: \
         the model replays postings in file order on exact rationals; a ledger whose assertions are all true must be accepted, \
         otherwise rejected with BalanceAssertionFailure whose `-->` line is the posting's line and whose computed balance and \
         difference equal the model's (compared as sets of terms). Hook events give the number of assertions actually evaluated. A quarter of the cases are written through declared account / commodity aliases and one in six is cut at entry boundaries into a tree of included files on the in-memory file system (diagnostics must then name the posting's own file and line). \
         One case in 500 drives a balance across the edge of the decimal range and back and then asserts the value a clamping implementation would hold (the run must not succeed). Non-trivial = final transaction has a specified outcome; distinct by ledger text."
            .to_string()
    }
    fn assumptions(&self) -> Vec<String> {
        vec![
            "reference model harness/src/model/book.rs is a correct reading of the C02 statement".into(),
            "an omitted-amount posting takes effect at its file position (statement: 'that posting and everything before it in file order')".into(),
            "an assignment following an omitted amount on the same account in one transaction is unspecified (circular)".into(),
        ]
    }
    fn min_nontrivial(&self, tier: Tier) -> u64 {
        tier.pick(50_000, 4_000_000)
    }
}
