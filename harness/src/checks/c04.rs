//! C04 — reported balances equal the sum of the register, over any date range.

use std::collections::{BTreeMap, BTreeSet};

use chrono::NaiveDate;
use okane_core::report::query;
use serde_json::json;

use crate::checks::book::{parse_inline_amount, to_multi};
use crate::cli;
use crate::engine::{guarded, Check, Ctx, Recorder, Tier};
use crate::gen::bookgen::{self, BookGen};
use crate::gen::ledger::{Entry, Ledger};
use crate::model::book::{multi_add, multi_to_string, pruned, Multi, Outcome};
use crate::model::q::Q;
use crate::ops;
use crate::rng::Rng;

pub struct C04;

type Bal = BTreeMap<String, Multi>;

/// What the real code returned for one ledger.
pub struct Observed {
    /// (date, [(account, amount)]) per stored transaction
    pub txns: Vec<(NaiveDate, Vec<(String, Multi)>)>,
    /// per queried range: Ok(balance with zero-valued entries kept as written by the code) or Err
    pub balances: Vec<Result<Vec<(String, Vec<(String, rust_decimal::Decimal)>)>, String>>,
    /// per account: postings listed by `Ledger::postings(account)`
    pub registers: BTreeMap<String, Vec<Multi>>,
    pub conv_asked: u64,
    pub conv_ok: u64,
    /// (range index, accounts a converted report of that range lists with a non-zero amount)
    pub conv_listed: Vec<(usize, Vec<String>)>,
}

pub fn gen_report_ledger(rng: &mut Rng, min_txn: usize, max_txn: usize) -> Option<(Ledger, Vec<(usize, Outcome)>)> {
    let mut g = BookGen::new(rng, bookgen::P_REPORT);
    g.declarations();
    let n = min_txn + g.rng.usize(max_txn - min_txn + 1);
    for _ in 0..n {
        if g.stopped {
            return None;
        }
        g.push_txn(true);
    }
    if g.stopped {
        return None;
    }
    let mut ledger = g.ledger;
    let outcomes = g.outcomes;
    // a third of the ledgers are not sorted by date (legal: book-keeping follows file order,
    // reports select by date): the same dates are dealt to the transactions in random order.
    if rng.chance(1, 3) {
        let mut dates: Vec<NaiveDate> = ledger.txns().map(|(_, t)| t.date).collect();
        rng.shuffle(&mut dates);
        let mut k = 0;
        for e in ledger.entries.iter_mut() {
            if let Entry::Txn(t) = e {
                t.date = dates[k];
                k += 1;
            }
        }
    }
    Some((ledger, outcomes))
}

pub fn candidate_dates(dates: &BTreeSet<NaiveDate>) -> Vec<Option<NaiveDate>> {
    let mut c: BTreeSet<NaiveDate> = BTreeSet::new();
    for d in dates {
        c.insert(*d);
        c.insert(*d - chrono::Duration::days(1));
        c.insert(*d + chrono::Duration::days(1));
    }
    if let (Some(lo), Some(hi)) = (dates.iter().next(), dates.iter().next_back()) {
        c.insert(*lo - chrono::Duration::days(400));
        c.insert(*hi + chrono::Duration::days(400));
    }
    let mut v: Vec<Option<NaiveDate>> = vec![None];
    v.extend(c.into_iter().map(Some));
    v
}

fn in_range(d: NaiveDate, r: (Option<NaiveDate>, Option<NaiveDate>)) -> bool {
    if let Some(s) = r.0 {
        if d < s {
            return false;
        }
    }
    if let Some(e) = r.1 {
        if d >= e {
            return false;
        }
    }
    true
}

/// Is `got` an acceptable report of the exact total `exact`: equal, or equal after rounding
/// to the declared precision; a commodity whose exact total is zero must not appear.
fn compare_amount(
    got: &[(String, rust_decimal::Decimal)],
    exact: &Multi,
    precision: &BTreeMap<String, u32>,
) -> Result<(), (&'static str, String)> {
    let exact = pruned(exact);
    let mut seen = BTreeSet::new();
    for (c, v) in got {
        if !seen.insert(c.clone()) {
            return Err(("commodity-listed-twice", c.clone()));
        }
        let gq = Q::from_decimal(*v);
        match exact.get(c) {
            None => {
                return Err((
                    if gq.is_zero() { "zero-total-commodity-shown" } else { "commodity-not-in-register" },
                    format!("{} {}", v, c),
                ));
            }
            Some(e) => {
                let rounded = precision.get(c).and_then(|dp| e.round_half_even(*dp));
                if gq != *e && Some(gq) != rounded {
                    return Err(("total-differs", format!("{} {} reported, register sums to {}", v, c, e.to_string_exact())));
                }
            }
        }
    }
    for (c, e) in &exact {
        if !seen.contains(c) {
            // legitimately absent only if it is shown nowhere because it rounds to zero? No:
            // rounding keeps the entry (as 0.00); absence of a non-zero total is a loss.
            return Err(("commodity-missing", format!("{} {} in the register, absent from the report", e.to_string_exact(), c)));
        }
    }
    Ok(())
}

fn sum_register(txns: &[(NaiveDate, Vec<(String, Multi)>)], r: (Option<NaiveDate>, Option<NaiveDate>)) -> Option<Bal> {
    let mut out = Bal::new();
    for (d, ps) in txns {
        if !in_range(*d, r) {
            continue;
        }
        for (a, m) in ps {
            let e = out.entry(a.clone()).or_default();
            for (c, v) in m {
                multi_add(e, c, *v)?;
            }
        }
    }
    Some(out)
}

fn range_class(r: (Option<NaiveDate>, Option<NaiveDate>), dates: &BTreeSet<NaiveDate>) -> String {
    let side = |d: Option<NaiveDate>| match d {
        None => "open",
        Some(d) if dates.contains(&d) => "on-date",
        Some(d) if Some(&d) < dates.iter().next() => "before-all",
        Some(d) if Some(&d) > dates.iter().next_back() => "after-all",
        Some(_) => "between",
    };
    format!("start={},end={}", side(r.0), side(r.1))
}

fn fmt_range(r: (Option<NaiveDate>, Option<NaiveDate>)) -> String {
    format!(
        "[{}, {})",
        r.0.map(|d| d.to_string()).unwrap_or("-inf".into()),
        r.1.map(|d| d.to_string()).unwrap_or("+inf".into())
    )
}

/// Parses one line of `okane register`: `<account> <posting amount> <running total>`.
pub fn parse_register_line(line: &str) -> Option<(String, Multi, Multi)> {
    let (account, rest) = line.split_once(' ')?;
    let mut parts: Vec<String> = Vec::new();
    let toks: Vec<&str> = rest.split(' ').collect();
    let mut i = 0;
    while i < toks.len() {
        if toks[i].starts_with('(') {
            let mut s = String::new();
            loop {
                if !s.is_empty() {
                    s.push(' ');
                }
                s.push_str(toks[i]);
                let done = toks[i].ends_with(')');
                i += 1;
                if done || i >= toks.len() {
                    break;
                }
            }
            parts.push(s);
        } else {
            let num = toks[i];
            i += 1;
            let is_num = |t: &str| t.parse::<rust_decimal::Decimal>().is_ok();
            if i < toks.len() && !is_num(toks[i]) && !toks[i].starts_with('(') {
                parts.push(format!("{} {}", num, toks[i]));
                i += 1;
            } else {
                parts.push(num.to_string());
            }
        }
    }
    if parts.len() != 2 {
        return None;
    }
    Some((account.to_string(), parse_inline_amount(&parts[0])?, parse_inline_amount(&parts[1])?))
}

pub fn parse_balance_output(out: &str) -> Option<Vec<(String, Vec<(String, rust_decimal::Decimal)>)>> {
    let mut v = Vec::new();
    for line in out.lines() {
        let (acct, amt) = line.rsplit_once(": ")?;
        let amt = amt.trim();
        let mut terms = Vec::new();
        if amt != "0" {
            let inner = amt.strip_prefix('(').and_then(|x| x.strip_suffix(')')).unwrap_or(amt);
            for term in inner.split(" + ") {
                let (n, c) = term.trim().split_once(' ')?;
                terms.push((c.to_string(), n.parse::<rust_decimal::Decimal>().ok()?));
            }
        }
        v.push((acct.to_string(), terms));
    }
    Some(v)
}

impl Check for C04 {
    fn id(&self) -> &'static str {
        "C04"
    }
    fn cases(&self, tier: Tier) -> u64 {
        tier.pick(12_000, 600_000)
    }
    fn run(&self, ctx: &Ctx, idx: u64, rec: &mut Recorder) {
        let mut rng = Rng::for_case(ctx.seed, "C04", idx);
        let Some((ledger, outcomes)) = gen_report_ledger(&mut rng, 3, 32) else {
            rec.skip();
            rec.count("gen:no-accepted-history");
            return;
        };
        let rendered = ledger.render();
        let mut precision: BTreeMap<String, u32> = BTreeMap::new();
        for e in &ledger.entries {
            if let Entry::Commodity { name, precision: Some(p), .. } = e {
                precision.insert(name.clone(), *p);
            }
        }
        let dates: BTreeSet<NaiveDate> = ledger.txns().map(|(_, t)| t.date).collect();
        let cands = candidate_dates(&dates);
        // ranges: all pairs when few candidates, otherwise a random sample; always the three
        // whole-history forms first.
        let lo = cands[1];
        let hi = *cands.last().unwrap();
        let mut ranges: Vec<(Option<NaiveDate>, Option<NaiveDate>)> = vec![(None, None), (lo, hi), (lo, None), (None, hi)];
        if cands.len() <= 9 {
            for s in &cands {
                for e in &cands {
                    ranges.push((*s, *e));
                }
            }
        } else {
            for _ in 0..80 {
                ranges.push((*rng.pick(&cands), *rng.pick(&cands)));
            }
            // adjacency triples
            for _ in 0..20 {
                let mut t = [*rng.pick(&cands[1..]), *rng.pick(&cands[1..]), *rng.pick(&cands[1..])];
                t.sort();
                ranges.push((t[0], t[1]));
                ranges.push((t[1], t[2]));
                ranges.push((t[0], t[2]));
            }
        }
        let files = vec![(ops::ROOT.to_string(), rendered.text.clone())];
        rec.op("report::process+balance(ranges)", &rendered.text);
        okane_core::verif::set_enabled(true);
        let _ = okane_core::verif::drain();
        let accounts: Vec<String> = bookgen::ACCOUNTS.iter().map(|s| s.to_string()).collect();
        let ranges2 = ranges.clone();
        let observed = guarded(rec, || {
            ops::with_processed(&files, ops::ROOT, None, |rctx, r| match r {
                Err(e) => Err(ops::render_error(e)),
                Ok(l) => {
                    let mut txns = Vec::new();
                    for t in l.transactions() {
                        let ps = t.postings.iter().map(|p| (p.account.as_str().to_string(), to_multi(&p.amount))).collect();
                        txns.push((t.date, ps));
                    }
                    let mut balances = Vec::new();
                    let (mut conv_asked, mut conv_ok) = (0u64, 0u64);
                    let mut conv_listed: Vec<(usize, Vec<String>)> = Vec::new();
                    for (k, r) in ranges2.iter().enumerate() {
                        // one range in three is first asked for with a conversion (result unused): the
                        // plain answer that follows on the same Ledger must not depend on that history
                        if k % 3 == 1 {
                            if let Some(target) = rctx.commodity(bookgen::COMMODITIES[(k / 3) % bookgen::COMMODITIES.len()]) {
                                let strategy = if (k / 3) % 2 == 0 {
                                    query::ConversionStrategy::Historical
                                } else {
                                    query::ConversionStrategy::UpToDate { now: r.1.or(r.0).unwrap_or(NaiveDate::from_ymd_opt(2024, 6, 1).unwrap()) }
                                };
                                let cq = query::BalanceQuery {
                                    conversion: Some(query::Conversion { strategy, target }),
                                    date_range: query::DateRange { start: r.0, end: r.1 },
                                };
                                conv_asked += 1;
                                if let Ok(b) = l.balance(rctx, &cq) {
                                    conv_ok += 1;
                                    // which accounts the converted report of this range lists with a non-zero amount
                                    let listed: Vec<String> = b
                                        .into_owned()
                                        .into_vec()
                                        .into_iter()
                                        .filter(|(_, amt)| ops::amount_pairs(amt).iter().any(|(_, v)| !v.is_zero()))
                                        .map(|(a, _)| a.as_str().to_string())
                                        .collect();
                                    conv_listed.push((k, listed));
                                }
                            }
                        }
                        let q = query::BalanceQuery {
                            conversion: None,
                            date_range: query::DateRange { start: r.0, end: r.1 },
                        };
                        balances.push(match l.balance(rctx, &q) {
                            Ok(b) => Ok(b
                                .into_owned()
                                .into_vec()
                                .into_iter()
                                .map(|(a, amt)| (a.as_str().to_string(), ops::amount_pairs(&amt)))
                                .collect()),
                            Err(e) => Err(e.to_string()),
                        });
                    }
                    let mut registers = BTreeMap::new();
                    for a in &accounts {
                        let ps = l.postings(rctx, &query::PostingQuery { account: Some(a.clone()) });
                        registers.insert(a.clone(), ps.iter().map(|p| to_multi(&p.amount)).collect::<Vec<_>>());
                    }
                    Ok(Observed { txns, balances, registers, conv_asked, conv_ok, conv_listed })
                }
            })
        });
        let events = okane_core::verif::drain();
        okane_core::verif::set_enabled(false);
        for (t, d) in &events {
            if *t == "query.balance" {
                rec.count(&format!("hook:query.balance:{}", d.split('|').next().unwrap_or("")));
            }
        }
        let Some(observed) = observed else { return };
        let obs = match observed {
            Ok(o) => o,
            Err(e) => {
                // outside the hypothesis (accepted ledgers); the known C02 deviation lands here.
                rec.skip();
                rec.count(if e.contains("assertion") { "skipped:rejected-assertion" } else { "skipped:rejected-other" });
                return;
            }
        };
        rec.nontrivial(&rendered.text);
        rec.count_n("ranges-queried", ranges.len() as u64);
        rec.count_n("converted-queries-interleaved", obs.conv_asked);
        rec.count_n("converted-queries-interleaved:answered", obs.conv_ok);
        rec.count_n("transactions", obs.txns.len() as u64);
        let witness = |extra: serde_json::Value| json!({"ledger": rendered.text, "detail": extra});

        // (0) register per account == postings of the stored transactions for that account
        for (a, listed) in &obs.registers {
            let from_txns: Vec<Multi> = obs.txns.iter().flat_map(|(_, ps)| ps.iter().filter(|(x, _)| x == a).map(|(_, m)| m.clone())).collect();
            if &from_txns != listed {
                rec.violation(
                    "register-differs-from-transactions",
                    "postings-query",
                    &format!("Ledger::postings({}) lists {} postings, the stored transactions hold {} for it (or amounts differ)", a, listed.len(), from_txns.len()),
                    witness(json!({"account": a})),
                );
                return;
            }
        }
        // stored transactions keep the written dates and order
        let written: Vec<NaiveDate> = ledger.txns().map(|(_, t)| t.date).collect();
        let stored: Vec<NaiveDate> = obs.txns.iter().map(|(d, _)| *d).collect();
        if written != stored {
            rec.violation("transaction-dates-differ", "stored", "stored transaction dates differ from the written ones", witness(json!({"written": written.iter().map(|d| d.to_string()).collect::<Vec<_>>(), "stored": stored.iter().map(|d| d.to_string()).collect::<Vec<_>>()})));
            return;
        }
        // a converted report of a range cannot list an account that has no posting dated in it
        for (k, listed) in &obs.conv_listed {
            let r = ranges[*k];
            let mut has: BTreeSet<&str> = BTreeSet::new();
            for (d, ps) in &obs.txns {
                if r.0.map(|s| *d >= s).unwrap_or(true) && r.1.map(|e| *d < e).unwrap_or(true) {
                    for (a, _) in ps {
                        has.insert(a.as_str());
                    }
                }
            }
            if let Some(a) = listed.iter().find(|a| !has.contains(a.as_str())) {
                rec.violation(
                    "converted-range-lists-account-without-postings",
                    &range_class(r, &dates),
                    &format!("a converted balance over {} lists {} although no transaction dated in the range posts to it", fmt_range(r), a),
                    witness(json!({"range": fmt_range(r), "listed": listed})),
                );
                return;
            }
            rec.count("converted-range:accounts-within-range");
        }
        // (a) every range: balance == sum of the register in [start, end)
        let mut by_range: Vec<Option<Bal>> = Vec::new();
        for (k, r) in ranges.iter().enumerate() {
            let Some(want) = sum_register(&obs.txns, *r) else {
                rec.skip();
                return;
            };
            let got = match &obs.balances[k] {
                Ok(g) => g,
                Err(e) => {
                    rec.violation("balance-query-failed", &range_class(*r, &dates), &format!("balance over {} failed: {}", fmt_range(*r), e), witness(json!({"range": fmt_range(*r)})));
                    return;
                }
            };
            let mut got_map: Bal = Bal::new();
            let mut names = BTreeSet::new();
            for (a, terms) in got {
                if !names.insert(a.clone()) {
                    rec.violation("account-listed-twice", &range_class(*r, &dates), &format!("{} listed twice over {}", a, fmt_range(*r)), witness(json!({"range": fmt_range(*r)})));
                    return;
                }
                let exact = want.get(a).cloned().unwrap_or_default();
                if let Err((clause, what)) = compare_amount(terms, &exact, &precision) {
                    let path = if r.0.is_none() && r.1.is_none() { "whole-history" } else { "range" };
                    rec.count(&format!("violated:{}", clause));
                    rec.violation(
                        clause,
                        &format!("{}|{}", path, range_class(*r, &dates)),
                        &format!("balance of {} over {}: {}", a, fmt_range(*r), what),
                        witness(json!({"range": fmt_range(*r), "account": a, "register_sum": multi_to_string(&pruned(&exact))})),
                    );
                    return;
                }
                let mut m = Multi::new();
                for (c, v) in terms {
                    m.insert(c.clone(), Q::from_decimal(*v));
                }
                got_map.insert(a.clone(), m);
            }
            for (a, m) in &want {
                if !pruned(m).is_empty() && !names.contains(a) {
                    rec.violation(
                        "account-missing",
                        &range_class(*r, &dates),
                        &format!("{} holds {} over {} by the register but is absent from the balance report", a, multi_to_string(&pruned(m)), fmt_range(*r)),
                        witness(json!({"range": fmt_range(*r), "account": a})),
                    );
                    return;
                }
            }
            if want.values().all(|m| pruned(m).is_empty()) {
                rec.count("range:empty-result");
            }
            by_range.push(Some(got_map));
        }
        // (b) adjacency, exact for commodities without declared precision
        let find = |r: (Option<NaiveDate>, Option<NaiveDate>)| ranges.iter().position(|x| *x == r);
        let mut adj = 0u64;
        for (i, r1) in ranges.iter().enumerate() {
            let (Some(_), Some(m)) = (r1.0.or(Some(NaiveDate::MIN)), r1.1) else { continue };
            if r1.0.map(|s| s > m).unwrap_or(false) {
                continue;
            }
            for (j, r2) in ranges.iter().enumerate() {
                if r2.0 != Some(m) || r2.1.map(|e| e < m).unwrap_or(false) {
                    continue;
                }
                let Some(k) = find((r1.0, r2.1)) else { continue };
                let (Some(a), Some(b), Some(u)) = (&by_range[i], &by_range[j], &by_range[k]) else { continue };
                adj += 1;
                let mut sum: Bal = a.clone();
                for (acct, mm) in b {
                    let e = sum.entry(acct.clone()).or_default();
                    for (c, v) in mm {
                        if multi_add(e, c, *v).is_none() {
                            return;
                        }
                    }
                }
                let accts: BTreeSet<&String> = sum.keys().chain(u.keys()).collect();
                for acct in accts {
                    let s = sum.get(acct).cloned().unwrap_or_default();
                    let w = u.get(acct).cloned().unwrap_or_default();
                    let comms: BTreeSet<&String> = s.keys().chain(w.keys()).collect();
                    for c in comms {
                        if precision.contains_key(c) {
                            continue;
                        }
                        let sv = s.get(c).copied().unwrap_or(Q::ZERO);
                        let wv = w.get(c).copied().unwrap_or(Q::ZERO);
                        if sv != wv {
                            rec.violation(
                                "adjacent-ranges-do-not-add-up",
                                "no-declared-precision",
                                &format!("{} {}: {} + {} gives {}, union {} gives {}", acct, c, fmt_range(*r1), fmt_range(*r2), sv.to_string_exact(), fmt_range((r1.0, r2.1)), wv.to_string_exact()),
                                witness(json!({"account": acct, "commodity": c})),
                            );
                            return;
                        }
                    }
                }
                if adj > 400 {
                    break;
                }
            }
            if adj > 400 {
                break;
            }
        }
        rec.count_n("adjacent-triples-checked", adj);

        // (c) a sample through the real binary: balance with flags, register's final running total
        if rng.chance(tier_cli_pct(ctx.tier), 1000) {
            let dir = ctx.scratch.join(format!("c04-{}", idx));
            let _ = std::fs::create_dir_all(&dir);
            let path = dir.join("l.ledger");
            let _ = std::fs::write(&path, &rendered.text);
            let r = *rng.pick(&ranges);
            let mut args: Vec<String> = vec!["balance".into(), "--now".into(), "2030-01-01".into()];
            if let Some(s) = r.0 {
                args.push("--start".into());
                args.push(s.to_string());
            }
            if let Some(e) = r.1 {
                args.push("--end".into());
                args.push(e.to_string());
            }
            args.push(path.to_string_lossy().into_owned());
            let argv: Vec<&str> = args.iter().map(|s| s.as_str()).collect();
            rec.op("okane balance (cli)", &format!("{:?}\n{}", args, rendered.text));
            match cli::run_okane(&ctx.cli_a, &argv, &dir) {
                Ok(res) => {
                    rec.count("cli:balance-runs");
                    let want = sum_register(&obs.txns, r).unwrap_or_default();
                    match (res.ok(), parse_balance_output(&res.stdout)) {
                        (true, Some(rows)) => {
                            let mut names = BTreeSet::new();
                            for (a, terms) in &rows {
                                names.insert(a.clone());
                                let exact = want.get(a).cloned().unwrap_or_default();
                                if let Err((clause, what)) = compare_amount(terms, &exact, &precision) {
                                    rec.violation(clause, &format!("cli|{}", range_class(r, &dates)), &format!("`okane balance` over {}: {}: {}", fmt_range(r), a, what), witness(json!({"argv": args, "stdout": res.stdout})));
                                    break;
                                }
                            }
                            for (a, m) in &want {
                                if !pruned(m).is_empty() && !names.contains(a) {
                                    rec.violation("account-missing", &format!("cli|{}", range_class(r, &dates)), &format!("`okane balance` over {} omits {}", fmt_range(r), a), witness(json!({"argv": args, "stdout": res.stdout})));
                                    break;
                                }
                            }
                        }
                        _ => {
                            rec.violation("cli-balance-failed", &res.class(), &format!("`okane balance` on an accepted ledger: exit {:?}, stderr {}", res.code, res.stderr.lines().next().unwrap_or("")), witness(json!({"argv": args, "stderr": res.stderr})));
                        }
                    }
                }
                Err(_) => rec.count("cli:spawn-failed"),
            }
            // register of one account: last running total == whole-history balance of it
            let acct = rng.pick(&accounts).clone();
            let p = path.to_string_lossy().into_owned();
            let argv = ["register", "--now", "2030-01-01", p.as_str(), acct.as_str()];
            rec.op("okane register (cli)", &format!("{:?}\n{}", argv, rendered.text));
            if let Ok(res) = cli::run_okane(&ctx.cli_a, &argv, &dir) {
                rec.count("cli:register-runs");
                let want_all = sum_register(&obs.txns, (None, None)).unwrap_or_default();
                let want = pruned(&want_all.get(&acct).cloned().unwrap_or_default());
                let listed = obs.registers.get(&acct).cloned().unwrap_or_default();
                let lines: Vec<&str> = res.stdout.lines().collect();
                if !res.ok() || lines.len() != listed.len() {
                    rec.violation("cli-register-differs", "line-count", &format!("`okane register {}`: exit {:?}, {} lines, {} postings expected", acct, res.code, lines.len(), listed.len()), witness(json!({"stdout": res.stdout, "stderr": res.stderr})));
                } else {
                    let mut running = Multi::new();
                    for (k, line) in lines.iter().enumerate() {
                        let Some((a, amt, tot)) = parse_register_line(line) else {
                            rec.violation("cli-register-differs", "unreadable-line", &format!("cannot read register line `{}`", line), witness(json!({"stdout": res.stdout})));
                            break;
                        };
                        for (c, v) in &listed[k] {
                            let _ = multi_add(&mut running, c, *v);
                        }
                        if a != acct || amt != listed[k] || tot != pruned(&running) {
                            rec.violation("cli-register-differs", "amount-or-running-total", &format!("register line {} `{}`: expected amount {} and running total {}", k + 1, line, multi_to_string(&listed[k]), multi_to_string(&pruned(&running))), witness(json!({"stdout": res.stdout})));
                            break;
                        }
                    }
                    if pruned(&running) != want {
                        rec.violation("register-total-differs-from-balance", "final-running-total", &format!("register of {} ends at {}, balance is {}", acct, multi_to_string(&pruned(&running)), multi_to_string(&want)), witness(json!({"stdout": res.stdout})));
                    }
                }
            }
            let _ = std::fs::remove_dir_all(&dir);
        }
        if rec.wants_sample() {
            rec.sample(json!({"ledger_head": rendered.text.chars().take(600).collect::<String>(), "transactions": obs.txns.len(), "ranges": ranges.len(), "distinct_dates": dates.len()}));
        }
        let _ = outcomes;
    }
    fn rule(&self) -> String {
        "Each case is an accepted ledger of 3-32 transactions (dates advance by 0-3 days, so several share a date; 1-4 commodities; \
         inferred, assigned, costed, lot-priced and expression amounts; commodity precisions declared for a random subset) \
         generated with the reference model. Queried on one Ledger value: no range, and every (start, end) over {none, each distinct date, \
         date-1, date+1, far before, far after} (all pairs when <= 9 candidates, else 80 random pairs + 20 adjacency triples), \
         including empty and inverted ranges. Oracle: (a) Ledger::balance(range) per account and commodity equals the exact sum of the \
         amounts of Ledger::transactions() dated in [start, end) - exactly, or after half-even rounding to the declared precision; a \
         commodity whose exact total is zero must not be listed, no account or commodity lost or listed twice; (0) Ledger::postings(account) \
         lists exactly those postings; (b) reports over adjacent ranges add up exactly for commodities without declared precision; (c) 3% \
         (quick) of the cases repeat one range through `okane balance --start/--end` and one account through `okane register`, whose \
         amounts, running totals and final total must agree with the above. Hook events show raw and re-fold paths both ran. \
         Non-trivial = accepted ledger; distinct by text."
            .to_string()
    }
    fn assumptions(&self) -> Vec<String> {
        vec![
            "'up to rounding to declared precision' is read as: a reported value may be the exact register sum or that sum rounded half-even to the commodity's precision".into(),
            "a commodity whose exact total is non-zero but rounds to 0.00 may be listed as zero (only exact-zero totals must be absent)".into(),
            "ledgers the code rejects (e.g. through the open C02 finding) are outside the hypothesis and skipped".into(),
        ]
    }
    fn min_nontrivial(&self, tier: Tier) -> u64 {
        tier.pick(5_000, 200_000)
    }
    fn chunk(&self, tier: Tier) -> u64 {
        tier.pick(200, 2000)
    }
}

fn tier_cli_pct(t: Tier) -> u64 {
    t.pick(30, 10)
}
