//! C20 — the golden-file helper compares faithfully and only writes when told to.

use std::os::unix::fs::MetadataExt;
use std::os::unix::process::ExitStatusExt;
use std::path::{Path, PathBuf};
use std::process::{Command, Stdio};

use serde_json::json;

use crate::engine::{Check, Ctx, Recorder, Tier, VERIF_ROOT};

pub struct C20;

const ENVS: &[Option<&str>] = &[None, Some(""), Some("1"), Some("0"), Some("yes")];

fn contents() -> Vec<String> {
    let long: String = (0..120).map(|i| format!("line {} of a longer golden file – 行 {}\n", i, i)).collect();
    let long_crlf = long.replace('\n', "\r\n");
    vec![
        "".into(),
        "a\n".into(),
        "a".into(),
        "a\r\n".into(),
        "a\r\nb\n".into(),
        "a\r\nb\r\n".into(),
        "日本語のテキスト\n".into(),
        long,
        long_crlf,
        "10%\r100%\n".into(), // bare CR inside a line
        "a\r".into(),         // CR at end of file
        "k\r\r\n".into(),
        "\n".into(),
        "\r\n".into(),
        "a\n\nb \n".into(),
        "\u{feff}abc\n".into(), // starts with a byte-order mark: content like any other
        // more than 8 KiB, with the CR of a CRLF as the last byte of the first 8 KiB
        format!("{}\r\nsecond line\r\nthird\r\n{}\r\n", "a".repeat(8191), "b".repeat(8200)),
    ]
}

fn normalise(s: &str) -> String {
    s.replace("\r\n", "\n")
}

/// `got` candidates for one golden content (None = golden file absent).
fn gots(content: Option<&str>) -> Vec<String> {
    let mut v: Vec<String> = Vec::new();
    let mut add = |s: String| {
        if !v.contains(&s) {
            v.push(s);
        }
    };
    let base = content.unwrap_or("");
    let n = normalise(base);
    add(n.clone());
    add(base.to_string()); // un-normalised (differs when the file has CRLF)
    add(format!("{}\n", n));
    add(n.trim_end_matches('\n').to_string());
    add(format!("{} ", n));
    add(n.replace('\r', "")); // every CR stripped
    add(n.trim_start_matches('\u{feff}').to_string()); // a leading byte-order mark stripped
    add(n.replace('\n', "\r\n"));
    if let Some(c) = n.chars().next() {
        let repl = if c == 'x' { 'y' } else { 'x' };
        add(format!("{}{}", repl, &n[c.len_utf8()..]));
    }
    if let Some((i, c)) = n.char_indices().last() {
        if c != '\n' {
            add(format!("{}z", &n[..i]));
        }
    }
    add("".into());
    add("completely different\n".into());
    v
}

/// (UPDATE_GOLDEN at Golden::new, value it is switched to before Golden::assert)
const SWITCHES: &[(Option<&str>, Option<&str>)] = &[(Some("1"), None), (None, Some("1")), (Some("1"), Some("")), (Some(""), Some("yes"))];

type Case = (Option<&'static str>, Option<String>, String, Option<Option<&'static str>>);

fn plan() -> Vec<Case> {
    let mut out = Vec::new();
    let mut goldens: Vec<Option<String>> = vec![None];
    goldens.extend(contents().into_iter().map(Some));
    for env in ENVS {
        for g in &goldens {
            for got in gots(g.as_deref()) {
                out.push((*env, g.clone(), got, None));
            }
        }
    }
    // one long-lived Golden value while the variable changes between `new` and `assert`
    let some: Vec<Option<String>> = vec![None, Some("a\n".into()), Some("a\r\nb\n".into()), Some("日本語のテキスト\n".into())];
    for (at_new, at_assert) in SWITCHES {
        for g in &some {
            for got in gots(g.as_deref()) {
                out.push((*at_new, g.clone(), got, Some(*at_assert)));
            }
        }
    }
    out
}

#[derive(Debug, Clone, PartialEq)]
struct Snap {
    name: String,
    bytes: Vec<u8>,
    ino: u64,
    mtime: (i64, i64),
}

fn snapshot(dir: &Path) -> Vec<Snap> {
    let mut v = Vec::new();
    let mut stack = vec![dir.to_path_buf()];
    while let Some(d) = stack.pop() {
        if let Ok(rd) = std::fs::read_dir(&d) {
            for e in rd.flatten() {
                let p = e.path();
                if p.is_dir() {
                    stack.push(p);
                    continue;
                }
                if let Ok(m) = std::fs::metadata(&p) {
                    v.push(Snap { name: p.strip_prefix(dir).unwrap_or(&p).to_string_lossy().into_owned(), bytes: std::fs::read(&p).unwrap_or_default(), ino: m.ino(), mtime: (m.mtime(), m.mtime_nsec()) });
                }
            }
        }
    }
    v.sort_by(|a, b| a.name.cmp(&b.name));
    v
}

fn show(s: &str) -> String {
    let e: String = s.chars().take(60).collect::<String>().escape_debug().to_string();
    if s.len() > 60 {
        format!("{}... ({} bytes)", e, s.len())
    } else {
        e
    }
}

/// Write-class events found in an strace log: (syscall, path or fd).
fn write_events(log: &str) -> Vec<String> {
    let mut out = Vec::new();
    for l in log.lines() {
        let Some(sp) = l.find(' ') else { continue };
        let call = l[sp..].trim_start();
        let name: String = call.chars().take_while(|c| c.is_ascii_alphanumeric() || *c == '_').collect();
        match name.as_str() {
            "open" | "openat" | "openat2" | "creat" => {
                if call.contains("O_WRONLY") || call.contains("O_RDWR") || call.contains("O_CREAT") || call.contains("O_TRUNC") || call.contains("O_APPEND") || name == "creat" {
                    out.push(call.chars().take(160).collect());
                }
            }
            "rename" | "renameat" | "renameat2" | "unlink" | "unlinkat" | "mkdir" | "mkdirat" | "rmdir" | "truncate" | "ftruncate" | "link" | "linkat" | "symlink" | "symlinkat" | "chmod" | "fchmodat" | "utimensat" => {
                out.push(call.chars().take(160).collect());
            }
            "write" | "pwrite64" | "writev" => {
                let fd: String = call[name.len()..].trim_start_matches('(').chars().take_while(|c| c.is_ascii_digit()).collect();
                if fd != "1" && fd != "2" {
                    out.push(call.chars().take(120).collect());
                }
            }
            _ => {}
        }
    }
    out
}

impl Check for C20 {
    fn id(&self) -> &'static str {
        "C20"
    }
    fn cases(&self, _tier: Tier) -> u64 {
        plan().len() as u64
    }
    fn chunk(&self, _tier: Tier) -> u64 {
        100
    }
    fn run(&self, ctx: &Ctx, idx: u64, rec: &mut Recorder) {
        let p = plan();
        let (env, golden, got, switch) = p[idx as usize].clone();
        let probe = std::env::var("VERIF_GOLDEN_PROBE").ok().filter(|s| !s.is_empty()).map(PathBuf::from).unwrap_or_else(|| PathBuf::from(format!("{}/.build/harness/verif/golden_probe", VERIF_ROOT)));
        let base = ctx.scratch.join(format!("c20-{}", idx));
        let dir = base.join("golden-dir");
        let _ = std::fs::remove_dir_all(&base);
        if std::fs::create_dir_all(dir.join("sub")).is_err() {
            rec.skip();
            return;
        }
        let gpath = dir.join("expected.txt");
        let gotpath = base.join("got.bin");
        let _ = std::fs::write(dir.join("sentinel.txt"), "do not touch\n");
        let _ = std::fs::write(dir.join("sub/other.golden"), "neighbour\r\n");
        if let Some(c) = &golden {
            let _ = std::fs::write(&gpath, c);
        }
        let _ = std::fs::write(&gotpath, &got);
        // make a later rewrite with identical bytes visible through mtime
        let before = snapshot(&dir);
        std::thread::sleep(std::time::Duration::from_millis(3));
        let traced = true;
        let trace_path = base.join("strace.log");
        let mut cmd = if traced {
            let mut c = Command::new("strace");
            c.arg("-f").arg("-e").arg("trace=%file,write,pwrite64,writev,ftruncate").arg("-o").arg(&trace_path).arg(&probe);
            c
        } else {
            Command::new(&probe)
        };
        cmd.arg(&gpath).arg(&gotpath).current_dir(&dir).stdin(Stdio::null()).stdout(Stdio::piped()).stderr(Stdio::piped()).env_clear().env("PATH", "/usr/bin:/bin").env("RUST_BACKTRACE", "0");
        if let Some(v) = env {
            cmd.env("UPDATE_GOLDEN", v);
        }
        match switch {
            Some(None) => {
                cmd.arg("unset");
            }
            Some(Some(v)) => {
                cmd.arg(format!("set:{}", v));
            }
            None => {}
        }
        let new_env = env;
        // what `assert` sees
        let env = switch.unwrap_or(env);
        let label = format!("UPDATE_GOLDEN={:?}{} golden={} got={}", new_env, if switch.is_some() { format!(" then {:?} before assert", env) } else { String::new() }, golden.as_deref().map(show).unwrap_or("<absent>".into()), show(&got));
        rec.op("Golden::new + assert (probe process)", &label);
        let out = match cmd.output() {
            Ok(o) => o,
            Err(_) => {
                rec.skip();
                let _ = std::fs::remove_dir_all(&base);
                return;
            }
        };
        let after = snapshot(&dir);
        let code = out.status.code();
        let stderr = String::from_utf8_lossy(&out.stderr).to_string();
        let stdout = String::from_utf8_lossy(&out.stdout).to_string();
        rec.nontrivial(&label);
        let update = env.map(|v| !v.is_empty()).unwrap_or(false);
        let env_class = match env {
            None => "unset",
            Some("") => "empty",
            Some(_) => "non-empty",
        };
        let golden_class = match golden.as_deref() {
            None => "absent",
            Some(c) if c.contains("\r\n") && c.replace("\r\n", "").contains('\r') => "mixed-cr",
            Some(c) if c.contains("\r\n") => "crlf",
            Some(c) if c.contains('\r') => "lone-cr",
            Some("") => "empty",
            Some(_) => "lf",
        };
        let wit = || json!({"UPDATE_GOLDEN": env, "UPDATE_GOLDEN_at_new": new_env, "switched": switch.is_some(), "golden": golden, "got": got, "exit": code, "signal": out.status.signal(), "stdout": stdout, "stderr": stderr.chars().take(600).collect::<String>(), "before": before.iter().map(|s| (&s.name, s.bytes.len())).collect::<Vec<_>>(), "after": after.iter().map(|s| (&s.name, s.bytes.len())).collect::<Vec<_>>()});
        let class = format!("env={}{}|golden={}", if switch.is_some() { "switched-to-" } else { "" }, env_class, golden_class);
        if switch.is_some() {
            rec.count("variable-switched-between-new-and-assert");
        }
        if switch.is_some() && golden.is_none() {
            // which of the two readings decides about a missing file is not laid down; writing without
            // the variable at assert time is
            if !update {
                let log = std::fs::read_to_string(&trace_path).unwrap_or_default();
                let evs = write_events(&log);
                if before != after || !evs.is_empty() {
                    rec.violation("disk-modified-without-update-golden", &class, &format!("UPDATE_GOLDEN {} at assert time, golden absent: the directory changed or write-class system calls were made: {}", env_class, evs.join(" ;; ")), wit());
                } else {
                    rec.count("disk:unchanged");
                }
            }
            let _ = std::fs::remove_dir_all(&base);
            return;
        }
        if code.is_none() || !matches!(code, Some(0) | Some(3) | Some(101)) {
            rec.violation("probe-abnormal-exit", &class, &format!("probe ended with {:?}", out.status), wit());
            let _ = std::fs::remove_dir_all(&base);
            return;
        }
        if !update {
            // ---- compare only; never touch the disk
            let expect_ok = golden.as_deref().map(|c| normalise(c) == got);
            match (expect_ok, code) {
                (None, Some(3)) => rec.count("compare:absent-golden-is-an-error"),
                (None, _) => rec.violation("missing-golden-not-an-error", &class, &format!("golden file absent and UPDATE_GOLDEN {}: expected Golden::new to fail, probe exit {:?}", env_class, code), wit()),
                (Some(true), Some(0)) => rec.count("compare:equal-succeeds"),
                (Some(false), Some(101)) => rec.count("compare:different-fails"),
                (Some(true), _) => rec.violation("equal-content-rejected", &class, &format!("got equals the golden content with CRLF normalised, yet assert failed (exit {:?})", code), wit()),
                (Some(false), _) => {
                    let near = golden.as_deref().map(|c| {
                        let n = normalise(c);
                        if n.trim_end() == got.trim_end() { "differs-in-trailing-whitespace" } else if n.replace('\r', "") == got.replace('\r', "") { "differs-in-cr-only" } else { "differs" }
                    }).unwrap_or("differs");
                    rec.violation("different-content-accepted", &format!("{}|{}", class, near), &format!("got differs from the golden content, yet assert succeeded (exit {:?})", code), wit())
                }
            }
            if before != after {
                let what = if after.len() != before.len() { "a file was created or removed" } else if after.iter().zip(before.iter()).any(|(a, b)| a.bytes != b.bytes) { "file content changed" } else { "a file was rewritten (inode or mtime changed)" };
                rec.violation("disk-modified-without-update-golden", &class, &format!("UPDATE_GOLDEN {}: {}", env_class, what), wit());
            } else {
                rec.count("disk:unchanged");
            }
            if traced {
                let log = std::fs::read_to_string(&trace_path).unwrap_or_default();
                rec.count("strace:runs");
                rec.count_n("strace:syscalls-seen", log.lines().count() as u64);
                let evs = write_events(&log);
                if !evs.is_empty() {
                    rec.violation("write-syscall-without-update-golden", &class, &format!("UPDATE_GOLDEN {}: write-class system call(s): {}", env_class, evs.join(" ;; ")), wit());
                }
            }
        } else {
            // ---- update mode: never fails, file is exactly `got`, nothing else touched
            if code != Some(0) {
                rec.violation("update-mode-failed", &class, &format!("UPDATE_GOLDEN={:?}: probe exit {:?}", env, code), wit());
            } else {
                rec.count("update:succeeds");
            }
            match std::fs::read(&gpath) {
                Ok(b) if b == got.as_bytes() => rec.count("update:file-is-exactly-got"),
                Ok(b) => rec.violation(
                    "golden-not-exactly-got-after-update",
                    &format!("{}|{}", class, if String::from_utf8_lossy(&b).replace("\r\n", "\n") == got.replace("\r\n", "\n") { "differs-in-line-ends" } else { "differs" }),
                    &format!("after UPDATE_GOLDEN={:?} the file holds {} instead of {}", env, show(&String::from_utf8_lossy(&b)), show(&got)),
                    wit(),
                ),
                Err(_) => rec.violation("golden-not-exactly-got-after-update", &format!("{}|file-missing", class), &format!("after UPDATE_GOLDEN={:?} the golden file does not exist (got = {})", env, show(&got)), wit()),
            }
            let others_before: Vec<&Snap> = before.iter().filter(|s| s.name != "expected.txt").collect();
            let others_after: Vec<&Snap> = after.iter().filter(|s| s.name != "expected.txt").collect();
            if others_before != others_after {
                rec.violation("update-touched-other-files", &class, "update mode changed a file other than the golden file", wit());
            }
        }
        if rec.wants_sample() {
            rec.sample(json!({"UPDATE_GOLDEN": env, "golden": golden, "got": got, "exit": code}));
        }
        let _ = std::fs::remove_dir_all(&base);
    }
    fn rule(&self) -> String {
        "Exhaustive over the pools: UPDATE_GOLDEN in {unset, \"\", \"1\", \"0\", \"yes\"} x golden file in {absent, 15 contents: empty, with and without final \
         newline, CRLF, mixed CRLF/LF, non-ASCII, 120 lines (LF and CRLF), bare CR inside a line, CR at end of file, CR CR LF, lone newline, trailing spaces, leading byte-order mark, 16 KiB with a CRLF across the 8 KiB mark} x `got` \
         in {the content CRLF-normalised, un-normalised, plus / minus a final newline, trailing space, all CR stripped, LF->CRLF, first / last code point changed, leading byte-order mark stripped, empty, \
         unrelated}; plus, for 4 goldens, the variable switched between Golden::new and Golden::assert (\"1\"->unset, unset->\"1\", \"1\"->\"\", \"\"->\"yes\": what assert sees decides). Each combination runs the real okane-golden helper (Golden::new then assert) in a fresh process inside a fresh directory that also holds a \
         sentinel file and a neighbouring golden. Observed: exit status (0 ok / 3 new failed / 101 panic), a before/after snapshot of the directory (names, bytes, \
         inode, mtime) and an strace log of file and write system calls. Oracle: variable unset or empty: \
         succeeds iff got == content with CRLF->LF, absent file is an error, snapshot identical, no write-class system call (open with O_WRONLY/O_RDWR/O_CREAT/O_TRUNC, \
         rename, unlink, mkdir, truncate, write to fd > 2); variable non-empty: never fails, file afterwards byte-identical to got, nothing else touched."
            .to_string()
    }
    fn assumptions(&self) -> Vec<String> {
        vec!["'CRLF normalised to LF' means exactly the two-byte sequence CR LF becomes LF; any other CR is content".into(), "exit status 101 of the probe = Golden::assert panicked; 3 = Golden::new returned Err".into()]
    }
    fn exhaustive(&self, _tier: Tier) -> Option<String> {
        Some(format!("all {} combinations of the three pools described in the rule", plan().len()))
    }
    fn min_nontrivial(&self, _tier: Tier) -> u64 {
        500
    }
}
