//! C07 — numeric literals mean exactly what is written.

use std::str::FromStr;

use okane_core::syntax::pretty_decimal::PrettyDecimal;
use serde_json::json;

use crate::cli;
use crate::engine::{guarded, Check, Ctx, Recorder, Tier};
use crate::model::num::{self, Verdict};
use crate::rng::{fnv64, Rng};

pub struct C07;

const SIGMA7: &[u8] = b"0159,.-";
const SIGMA13: &[u8] = b"0123456789,.-";
const BATCH: u64 = 512;

fn count_upto(base: u64, maxlen: u32) -> u64 {
    (1..=maxlen).map(|k| base.pow(k)).sum()
}

/// j-th string (shortlex order) over `alphabet`, lengths 1..=maxlen.
fn nth_string(alphabet: &[u8], mut j: u64) -> String {
    let base = alphabet.len() as u64;
    let mut len = 1u32;
    loop {
        let n = base.pow(len);
        if j < n {
            break;
        }
        j -= n;
        len += 1;
    }
    let mut out = vec![0u8; len as usize];
    for k in (0..len as usize).rev() {
        out[k] = alphabet[(j % base) as usize];
        j /= base;
    }
    String::from_utf8(out).unwrap()
}

struct Plan {
    a_len: u32,
    b_len: u32,
    a_batches: u64,
    b_batches: u64,
    c_cases: u64,
    d_cases: u64,
    e_cases: u64,
}

fn plan(tier: Tier) -> Plan {
    let a_len = tier.pick(7, 9);
    let b_len = tier.pick(5, 6);
    Plan {
        a_len,
        b_len,
        a_batches: count_upto(7, a_len).div_ceil(BATCH),
        b_batches: count_upto(13, b_len).div_ceil(BATCH),
        c_cases: tier.pick(400, 60_000),
        d_cases: tier.pick(300, 40_000),
        e_cases: tier.pick(60, 1_500),
    }
}

fn reject_class(reason: &str) -> &'static str {
    match reason {
        "fraction contains a non-digit (second dot, comma or minus)" => "bad-fraction",
        "integer part contains a character other than digit or comma" => "bad-integer-char",
        "leading group must have one to three digits" => "bad-leading-group",
        "comma group is not exactly three digits" => "incomplete-group",
        "no digit at all" => "no-digit",
        "too large or too precise to represent" => "unrepresentable",
        _ => "other",
    }
}

/// Checks one literal through `PrettyDecimal::from_str` / `to_string`. Returns the model verdict.
pub fn check_literal(s: &str, rec: &mut Recorder) -> Verdict {
    let verdict = num::classify(s);
    rec.op("PrettyDecimal::from_str", s);
    let Some(got) = guarded(rec, || PrettyDecimal::from_str(s)) else {
        return verdict;
    };
    match (&verdict, got) {
        (Verdict::Accept { lit, mantissa }, Ok(pd)) => {
            rec.count("accept-ok");
            if pd.value.mantissa() != *mantissa || pd.value.scale() != lit.scale {
                rec.violation(
                    "wrong-value",
                    if pd.value.scale() != lit.scale { "scale" } else { "mantissa" },
                    &format!("literal `{}` read as {} (scale {})", s, pd.value, pd.value.scale()),
                    json!({"literal": s, "expected_mantissa": mantissa.to_string(), "expected_scale": lit.scale,
                        "got_mantissa": pd.value.mantissa().to_string(), "got_scale": pd.value.scale()}),
                );
                return verdict;
            }
            rec.op("PrettyDecimal::to_string", s);
            let Some(printed) = guarded(rec, || pd.to_string()) else {
                return verdict;
            };
            match num::classify(&printed) {
                Verdict::Accept { lit: plit, mantissa: pm } => {
                    if pm != *mantissa || plit.scale != lit.scale {
                        rec.violation(
                            "print-changes-value",
                            if lit.grouped { "grouped" } else { "plain" },
                            &format!("`{}` prints as `{}`", s, printed),
                            json!({"literal": s, "printed": printed}),
                        );
                    } else {
                        let want_grouped = lit.grouped && num::has_thousands(lit);
                        if want_grouped && !plit.grouped {
                            rec.violation(
                                "print-loses-grouping",
                                "grouped",
                                &format!("`{}` prints as `{}`", s, printed),
                                json!({"literal": s, "printed": printed}),
                            );
                        } else if !lit.grouped && plit.grouped {
                            rec.violation(
                                "print-adds-grouping",
                                "plain",
                                &format!("`{}` prints as `{}`", s, printed),
                                json!({"literal": s, "printed": printed}),
                            );
                        }
                    }
                }
                _ => {
                    rec.violation(
                        "print-malformed",
                        if lit.grouped { "grouped" } else { "plain" },
                        &format!("`{}` prints as malformed `{}`", s, printed),
                        json!({"literal": s, "printed": printed}),
                    );
                }
            }
        }
        (Verdict::Accept { .. }, Err(e)) => {
            rec.violation(
                "rejected-wellformed",
                "from_str",
                &format!("well-formed literal `{}` rejected: {}", s, e),
                json!({"literal": s, "error": e.to_string()}),
            );
        }
        (Verdict::Reject(reason), Ok(pd)) => {
            rec.count("reject-but-accepted");
            rec.violation(
                "accepted-malformed",
                &format!("class={}", reject_class(reason)),
                &format!("malformed literal `{}` ({}) accepted as {}", s, reason, pd.value),
                json!({"literal": s, "reason": reason, "read_as": pd.value.to_string()}),
            );
        }
        (Verdict::Reject(_), Err(_)) => rec.count("reject-ok"),
        (Verdict::Unspecified { lit, mantissa }, Ok(pd)) => {
            rec.count("unspecified-accepted");
            if let Some(m) = mantissa {
                if pd.value.mantissa() != *m || pd.value.scale() != lit.scale {
                    rec.violation(
                        "wrong-value",
                        "empty-integer-part",
                        &format!("literal `{}` read as {}", s, pd.value),
                        json!({"literal": s, "got": pd.value.to_string()}),
                    );
                }
            }
        }
        (Verdict::Unspecified { .. }, Err(_)) => rec.count("unspecified-rejected"),
    }
    verdict
}

fn is_nontrivial(s: &str) -> bool {
    s.bytes().any(|c| c.is_ascii_digit())
}

fn run_batch(alphabet: &[u8], maxlen: u32, batch: u64, rec: &mut Recorder, tag: &str) {
    let total = count_upto(alphabet.len() as u64, maxlen);
    let start = batch * BATCH;
    let end = std::cmp::min(total, start + BATCH);
    let mut h: u64 = 0;
    let mut nt = 0u64;
    for j in start..end {
        let s = nth_string(alphabet, j);
        check_literal(&s, rec);
        if is_nontrivial(&s) {
            nt += 1;
            h ^= fnv64(s.as_bytes()).rotate_left((j % 63) as u32);
        }
        if rec.wants_sample() && j % 97 == 13 {
            rec.sample(json!({"family": tag, "literal": s, "model": format!("{:?}", num::classify(&s))}));
        }
    }
    rec.count_n(&format!("strings:{}", tag), end - start);
    rec.count_n("nontrivial-strings", nt);
    if nt > 0 {
        rec.nontrivial_hash(h ^ fnv64(tag.as_bytes()));
    }
}

fn gen_valid(rng: &mut Rng, max_int_digits: usize) -> String {
    let mut s = String::new();
    if rng.chance(1, 3) {
        s.push('-');
    }
    if rng.chance(1, 8) {
        // an integral part made of zeros (ungrouped or grouped), or small behind leading zero groups,
        // and a fraction that starts with zeros
        s.push_str(rng.pick_str(&["0", "0,000", "00,000", "000,000", "0,000,000", "0,001", "00,012", "000"]));
        if rng.chance(5, 6) {
            s.push('.');
            for _ in 0..rng.usize(4) {
                s.push('0');
            }
            for _ in 0..rng.usize(4) {
                s.push((b'0' + rng.below(10) as u8) as char);
            }
        }
        return s;
    }
    let nint = 1 + rng.usize(max_int_digits);
    let digits: String = (0..nint)
        .map(|i| {
            let d = if i == 0 && nint > 1 { 1 + rng.below(9) } else { rng.below(10) };
            (b'0' + d as u8) as char
        })
        .collect();
    if rng.chance(1, 2) && nint > 3 {
        let first = nint % 3;
        let mut out = String::new();
        let mut i = 0;
        if first > 0 {
            out.push_str(&digits[..first]);
            i = first;
        }
        while i < nint {
            if !out.is_empty() {
                out.push(',');
            }
            out.push_str(&digits[i..i + 3]);
            i += 3;
        }
        s.push_str(&out);
    } else {
        s.push_str(&digits);
    }
    if rng.chance(2, 3) {
        s.push('.');
        let nfrac = match rng.below(10) {
            0 => 0,
            1 => 26 + rng.usize(6),
            _ => 1 + rng.usize(6),
        };
        for _ in 0..nfrac {
            s.push((b'0' + rng.below(10) as u8) as char);
        }
    }
    s
}

fn mutate(rng: &mut Rng, s: &str) -> String {
    let mut b: Vec<u8> = s.bytes().collect();
    let pos = rng.usize(b.len() + 1);
    match rng.below(7) {
        0 => b.insert(pos, *rng.pick(b",.-")),
        1 => {
            if !b.is_empty() {
                b.remove(std::cmp::min(pos, b.len() - 1));
            }
        }
        2 => b.insert(pos, b'0' + rng.below(10) as u8),
        3 => b.push(b','),
        4 => {
            // group of two or four after a comma
            b.extend_from_slice(if rng.chance(1, 2) { b",12" } else { b",1234" });
        }
        5 => {
            b.extend_from_slice(b".5");
        }
        _ => {
            if !b.is_empty() {
                let p = std::cmp::min(pos, b.len() - 1);
                b[p] = *rng.pick(SIGMA13);
            }
        }
    }
    String::from_utf8(b).unwrap()
}

/// Decimal digit strings of the boundaries a literal scanner's accumulators can trip over.
const BOUNDARIES: &[&str] = &[
    "2147483648",                               // 2^31
    "4294967296",                               // 2^32
    "9223372036854775808",                      // 2^63
    "18446744073709551616",                     // 2^64
    "39614081257132168796771975168",            // 2^95
    "79228162514264337593543950336",            // 2^96 (first mantissa a 96-bit decimal cannot hold)
    "170141183460469231731687303715884105728",  // 2^127
    "340282366920938463463374607431768211456",  // 2^128
    "10000000000000000000000000000",            // 10^28
    "100000000000000000000000000000",           // 10^29
    "1000000000000000000",                      // 10^18
];

/// digits + delta (|delta| small), on decimal strings of any length.
fn add_small(digits: &str, delta: i64) -> String {
    let mut d: Vec<i64> = digits.bytes().map(|b| (b - b'0') as i64).collect();
    let mut carry = delta;
    let mut i = d.len();
    while carry != 0 && i > 0 {
        i -= 1;
        let v = d[i] + carry;
        d[i] = v.rem_euclid(10);
        carry = v.div_euclid(10);
    }
    let mut s: String = d.iter().map(|x| (b'0' + *x as u8) as char).collect();
    if carry > 0 {
        s = format!("{}{}", carry, s);
    }
    let t = s.trim_start_matches('0');
    if t.is_empty() { "0".to_string() } else { t.to_string() }
}

/// A literal whose digit string sits within a few units (or a few thousand) of a power-of-two
/// or power-of-ten boundary, with optional sign, decimal point anywhere and comma grouping.
fn gen_boundary(rng: &mut Rng) -> String {
    let base = rng.pick_str(BOUNDARIES);
    let delta = match rng.below(4) {
        0 => 0,
        1 => rng.range(-3, 3),
        2 => -rng.range(1, 99_999),
        _ => rng.range(1, 99_999),
    };
    let digits = add_small(base, delta);
    let scale = match rng.below(4) {
        0 | 1 => 0,
        2 => rng.usize(digits.len().min(29)),
        _ => rng.usize(7),
    };
    let (int, frac) = digits.split_at(digits.len() - scale.min(digits.len() - 1));
    let mut out = String::new();
    if rng.chance(1, 3) {
        out.push('-');
    }
    if rng.chance(1, 3) && int.len() > 3 {
        let first = int.len() % 3;
        let mut i = 0;
        if first > 0 {
            out.push_str(&int[..first]);
            i = first;
        }
        while i < int.len() {
            if i > 0 {
                out.push(',');
            }
            out.push_str(&int[i..i + 3]);
            i += 3;
        }
    } else {
        out.push_str(int);
    }
    if !frac.is_empty() {
        out.push('.');
        out.push_str(frac);
    }
    out
}

fn gen_near_valid(rng: &mut Rng) -> String {
    if rng.chance(1, 14) {
        // an over-long leading group that is only zero padding (`0001,234`): the group count is a
        // count of digits, not a bound on the value
        let mut s = String::new();
        if rng.chance(1, 4) {
            s.push('-');
        }
        for _ in 0..1 + rng.usize(3) {
            s.push('0');
        }
        let lead = rng.below(1000);
        s.push_str(&format!("{:03}", lead));
        for _ in 0..1 + rng.usize(2) {
            s.push_str(&format!(",{:03}", rng.below(1000)));
        }
        if rng.chance(1, 3) {
            s.push_str(&format!(".{:02}", rng.below(100)));
        }
        return s;
    }
    if rng.chance(1, 20) {
        // a small value behind 10-40 leading zeros: 39 and more digits in all, and still well-formed
        let mut s = String::new();
        if rng.chance(1, 4) {
            s.push('-');
        }
        if rng.chance(1, 3) {
            // grouped: zero groups in front of a grouped value
            s.push_str(["0", "00", "000"][rng.usize(3)]);
            for _ in 0..3 + rng.usize(11) {
                s.push_str(",000");
            }
            s.push_str(&format!(",{:03},{:03}", rng.below(1000), rng.below(1000)));
        } else {
            for _ in 0..10 + rng.usize(31) {
                s.push('0');
            }
            s.push_str(&format!("{}", 1 + rng.below(999_999)));
        }
        if rng.chance(1, 2) {
            s.push_str(&format!(".{:02}", rng.below(100)));
        }
        return s;
    }
    if rng.chance(1, 5) {
        let v = gen_boundary(rng);
        return if rng.chance(1, 6) { mutate(rng, &v) } else { v };
    }
    let max_digits = match rng.below(6) {
        0 => 45,
        1 => 30,
        _ => 12,
    };
    let v = gen_valid(rng, max_digits);
    if rng.chance(1, 2) {
        v
    } else {
        mutate(rng, &v)
    }
}

const POSITIONS: &[&str] = &[
    "amount", "rate-cost", "total-cost", "lot-rate", "lot-total", "assertion", "format", "eval",
];

fn in_position_text(pos: &str, s: &str) -> String {
    match pos {
        "amount" => format!("2024/01/01 p\n    A    {} USD\n    B\n", s),
        "rate-cost" => format!("2024/01/01 p\n    A    1 USD @ {} EUR\n    B\n", s),
        "total-cost" => format!("2024/01/01 p\n    A    1 USD @@ {} EUR\n    B\n", s),
        "lot-rate" => format!("2024/01/01 p\n    A    1 USD {{{} EUR}}\n    B\n", s),
        "lot-total" => format!("2024/01/01 p\n    A    1 USD {{{{{} EUR}}}}\n    B\n", s),
        "assertion" => format!("2024/01/01 p\n    A    1 USD = {} USD\n    B\n", s),
        "format" => format!("commodity USD\n    format {} USD\n", s),
        "eval" => format!("{} USD", s),
        _ => unreachable!(),
    }
}

/// Parses `text` and returns the (mantissa, scale) of the number at `pos`, or Err(message).
fn parse_in_position(pos: &str, text: &str) -> Result<(i128, u32), String> {
    use okane_core::parse::{parse_ledger, ParseOptions};
    use okane_core::syntax::{self, expr::ValueExpr, plain};
    fn amt(v: &ValueExpr) -> Result<(i128, u32), String> {
        match v {
            ValueExpr::Amount(a) => Ok((a.value.value.mantissa(), a.value.value.scale())),
            _ => Err("not a plain amount".into()),
        }
    }
    if pos == "eval" {
        let v = ValueExpr::try_from(text).map_err(|e| e.to_string())?;
        return amt(&v);
    }
    let entries: Result<Vec<_>, _> = parse_ledger::<plain::Ident>(&ParseOptions::default(), text).collect();
    let entries = entries.map_err(|e| e.to_string())?;
    if entries.len() != 1 {
        return Err(format!("{} entries", entries.len()));
    }
    match &entries[0].1 {
        syntax::LedgerEntry::Txn(t) => {
            let p = t.posts.first().ok_or("no posting")?;
            let pa = p.amount.as_ref();
            match pos {
                "amount" => amt(&pa.ok_or("no amount")?.amount),
                "rate-cost" | "total-cost" => match pa.ok_or("no amount")?.cost.as_ref().ok_or("no cost")? {
                    syntax::Exchange::Rate(v) | syntax::Exchange::Total(v) => amt(v),
                },
                "lot-rate" | "lot-total" => match pa.ok_or("no amount")?.lot.price.as_ref().ok_or("no lot")? {
                    syntax::Exchange::Rate(v) | syntax::Exchange::Total(v) => amt(v),
                },
                "assertion" => amt(p.balance.as_ref().ok_or("no assertion")?),
                _ => unreachable!(),
            }
        }
        syntax::LedgerEntry::Commodity(c) => {
            for d in &c.details {
                if let syntax::CommodityDetail::Format(a) = d {
                    return Ok((a.value.value.mantissa(), a.value.value.scale()));
                }
            }
            Err("no format".into())
        }
        _ => Err("unexpected entry".into()),
    }
}

fn check_in_position(pos: &str, s: &str, rec: &mut Recorder) {
    let verdict = num::classify(s);
    let text = in_position_text(pos, s);
    rec.op(&format!("parse-in-position:{}", pos), &text);
    let Some(got) = guarded(rec, || parse_in_position(pos, &text)) else {
        return;
    };
    rec.count(&format!("position:{}", pos));
    match (&verdict, got) {
        (Verdict::Accept { lit, mantissa }, Ok((m, sc))) => {
            if m != *mantissa || sc != lit.scale {
                rec.violation(
                    "wrong-value-in-position",
                    pos,
                    &format!("`{}` as {} read as mantissa {} scale {}", s, pos, m, sc),
                    json!({"literal": s, "position": pos, "text": text}),
                );
            }
        }
        (Verdict::Accept { .. }, Err(e)) => rec.violation(
            "rejected-wellformed",
            &format!("position={}", pos),
            &format!("well-formed `{}` rejected as {}: {}", s, pos, e.lines().next().unwrap_or("")),
            json!({"literal": s, "position": pos, "text": text, "error": e}),
        ),
        (Verdict::Reject(reason), Ok((m, sc))) => rec.violation(
            "accepted-malformed",
            &format!("class={}", reject_class(reason)),
            &format!("malformed `{}` ({}) accepted as {} with mantissa {} scale {}", s, reason, pos, m, sc),
            json!({"literal": s, "position": pos, "text": text, "reason": reason}),
        ),
        _ => {}
    }
}

/// Positions in which the formatter must print the literal as `PrettyDecimal` prints it (value,
/// decimals and grouping kept): the eight positions above plus a bare factor inside a
/// parenthesised expression and a bare balance assertion.
const PRINT_POSITIONS: &[&str] = &["amount", "rate-cost", "total-cost", "lot-rate", "lot-total", "assertion", "format", "bare-factor", "bare-divisor", "bare-assertion", "expr-term", "after-format-declaration", "cost-after-format-declaration"];

fn print_position_text(pos: &str, s: &str) -> String {
    match pos {
        "bare-factor" => format!("2024/01/01 p\n    A    ({} * 2 USD)\n    B\n", s),
        "bare-divisor" => format!("2024/01/01 p\n    A    (7 USD / {})\n    B\n", s),
        "bare-assertion" => format!("2024/01/01 p\n    A    3 USD = {}\n    B\n", s),
        "expr-term" => format!("2024/01/01 p\n    A    (3 USD + {} USD)\n    B\n", s),
        // a `format` declared earlier in the file is a report setting: the formatter still prints
        // the literal with the decimals it was written with
        "after-format-declaration" => format!("commodity USD\n    format 1,000.0000 USD\n\n2024/01/01 p\n    A    {} USD\n    B\n", s),
        "cost-after-format-declaration" => format!("commodity EUR\n    format 1,000.000 EUR\n\n2024/01/01 p\n    A    3 USD @ {} EUR\n    B\n", s),
        _ => in_position_text(pos, s),
    }
}

fn check_print_in_position(pos: &str, s: &str, rec: &mut Recorder) {
    let Verdict::Accept { .. } = num::classify(s) else { return };
    let Ok(pd) = PrettyDecimal::from_str(s) else { return };
    let want = pd.to_string();
    let text = print_position_text(pos, s);
    rec.op(&format!("format-in-position:{}", pos), &text);
    let Some(out) = guarded(rec, || crate::checks::c05::format_text(&text)) else { return };
    rec.count(&format!("print-position:{}", pos));
    match out {
        Err(e) => rec.violation(
            "rejected-wellformed",
            &format!("format|position={}", pos),
            &format!("well-formed `{}` as {}: the formatter fails: {}", s, pos, e.lines().next().unwrap_or("")),
            json!({"literal": s, "position": pos, "text": text, "error": e}),
        ),
        Ok(f) => {
            // the literal must appear as a whole token
            let is_num = |c: char| c.is_ascii_digit() || c == ',' || c == '.';
            let found = f.match_indices(&want).any(|(i, m)| {
                let before = f[..i].chars().next_back();
                let after = f[i + m.len()..].chars().next();
                !before.map(is_num).unwrap_or(false) && !after.map(is_num).unwrap_or(false)
            });
            if !found {
                rec.violation(
                    "print-in-position-differs",
                    &format!("{}|{}", pos, if want.contains(',') { "grouped" } else { "plain" }),
                    &format!("`{}` as {} is not printed as `{}`: {}", s, pos, want, f.lines().nth(1).unwrap_or(&f).trim()),
                    json!({"literal": s, "position": pos, "text": text, "formatted": f, "expected_token": want}),
                );
            }
        }
    }
}

/// `okane format` must echo every accepted literal with the same value and reject files
/// containing a malformed one (exit 1, never a signal or a different number).
fn check_cli_echo(ctx: &Ctx, rng: &mut Rng, rec: &mut Recorder) {
    let bin = if ctx.tier == Tier::Thorough && ctx.cli_b.exists() && rng.chance(1, 2) {
        &ctx.cli_b
    } else {
        &ctx.cli_a
    };
    let flavour = if bin == &ctx.cli_b { "release" } else { "checked" };
    // accepted literals file
    let mut lits = Vec::new();
    let mut text = String::new();
    while lits.len() < 12 {
        let s = gen_near_valid(rng);
        if let Verdict::Accept { lit, mantissa } = num::classify(&s) {
            text.push_str(&format!("2024/01/01 p{}\n    A    {} USD\n    B\n\n", lits.len(), s));
            lits.push((s, mantissa, lit.scale));
        }
    }
    let path = ctx.scratch.join("c07_ok.ledger");
    std::fs::write(&path, &text).unwrap();
    rec.op(&format!("okane[{}] format", flavour), &text);
    let Ok(out) = cli::run_okane(bin, &["format", path.to_str().unwrap()], &ctx.scratch) else {
        rec.skip();
        return;
    };
    rec.count(&format!("cli-format:{}:{}", flavour, out.class()));
    if !out.ok() {
        rec.violation(
            "cli-rejects-wellformed",
            &format!("{}|{}", flavour, out.class()),
            &format!("okane format fails on well-formed literals: {}", out.stderr.lines().next().unwrap_or("")),
            json!({"input": text, "stderr": out.stderr, "status": out.class()}),
        );
    } else {
        let echoed: Vec<&str> = out
            .stdout
            .lines()
            .filter(|l| l.starts_with("    A"))
            .filter_map(|l| l.trim_end().strip_suffix(" USD").and_then(|x| x.split_whitespace().last()))
            .collect();
        if echoed.len() != lits.len() {
            rec.violation(
                "cli-echo-count",
                flavour,
                "number of echoed postings differs",
                json!({"input": text, "stdout": out.stdout}),
            );
        } else {
            for (e, (s, m, sc)) in echoed.iter().zip(lits.iter()) {
                match num::classify(e) {
                    Verdict::Accept { lit, mantissa } if mantissa == *m && lit.scale == *sc => {}
                    _ => {
                        rec.violation(
                            "cli-echo-differs",
                            flavour,
                            &format!("`{}` echoed by okane format as `{}`", s, e),
                            json!({"literal": s, "echo": e, "flavour": flavour}),
                        );
                        break;
                    }
                }
            }
        }
    }
    // one malformed literal
    for _ in 0..20 {
        let s = gen_near_valid(rng);
        if let Verdict::Reject(reason) = num::classify(&s) {
            if s.is_empty() {
                continue;
            }
            let text = format!("2024/01/01 p\n    A    {} USD\n    B\n", s);
            let path = ctx.scratch.join("c07_bad.ledger");
            std::fs::write(&path, &text).unwrap();
            rec.op(&format!("okane[{}] format", flavour), &text);
            let Ok(out) = cli::run_okane(bin, &["format", path.to_str().unwrap()], &ctx.scratch) else {
                rec.skip();
                return;
            };
            rec.count(&format!("cli-format-bad:{}:{}", flavour, out.class()));
            if out.class() != "error" {
                rec.violation(
                    "cli-accepted-malformed",
                    &format!("class={}|{}|{}", reject_class(reason), flavour, out.class()),
                    &format!("okane format on malformed `{}` ({}): status {}", s, reason, out.class()),
                    json!({"literal": s, "input": text, "stdout": out.stdout, "stderr": out.stderr, "flavour": flavour}),
                );
            }
            break;
        }
    }
    rec.nontrivial(&text);
}

impl Check for C07 {
    fn id(&self) -> &'static str {
        "C07"
    }

    fn cases(&self, tier: Tier) -> u64 {
        let p = plan(tier);
        p.a_batches + p.b_batches + p.c_cases + p.d_cases + p.e_cases
    }

    fn chunk(&self, tier: Tier) -> u64 {
        tier.pick(40, 400)
    }

    fn run(&self, ctx: &Ctx, idx: u64, rec: &mut Recorder) {
        let p = plan(ctx.tier);
        let mut i = idx;
        if i < p.a_batches {
            return run_batch(SIGMA7, p.a_len, i, rec, "sigma7");
        }
        i -= p.a_batches;
        if i < p.b_batches {
            return run_batch(SIGMA13, p.b_len, i, rec, "sigma13");
        }
        i -= p.b_batches;
        let mut rng = Rng::for_case(ctx.seed, "C07", idx);
        if i < p.c_cases {
            let mut h = 0u64;
            for k in 0..200 {
                let s = gen_near_valid(&mut rng);
                let v = check_literal(&s, rec);
                h ^= fnv64(s.as_bytes()).rotate_left(k % 61);
                if rec.wants_sample() && k == 7 {
                    rec.sample(json!({"family": "near-valid", "literal": s, "model": format!("{:?}", v)}));
                }
            }
            rec.count_n("strings:near-valid", 200);
            rec.count_n("nontrivial-strings", 200);
            rec.nontrivial_hash(h);
            return;
        }
        i -= p.c_cases;
        if i < p.d_cases {
            let mut h = 0u64;
            for k in 0..25 {
                let s = if rng.chance(1, 3) {
                    nth_string(SIGMA13, rng.below(count_upto(13, 4)))
                } else {
                    gen_near_valid(&mut rng)
                };
                if s.is_empty() {
                    continue;
                }
                let pos = POSITIONS[rng.usize(POSITIONS.len())];
                check_in_position(pos, &s, rec);
                let ppos = PRINT_POSITIONS[rng.usize(PRINT_POSITIONS.len())];
                check_print_in_position(ppos, &s, rec);
                h ^= fnv64(format!("{}{}", pos, s).as_bytes()).rotate_left(k % 61);
                if rec.wants_sample() && k == 3 {
                    rec.sample(json!({"family": "in-position", "position": pos, "text": in_position_text(pos, &s)}));
                }
            }
            rec.nontrivial_hash(h);
            return;
        }
        check_cli_echo(ctx, &mut rng, rec);
    }

    fn rule(&self) -> String {
        "Families: (sigma7) every string over {0,1,5,9,',','.','-'} up to the stated length and (sigma13) every string over \
         digits/comma/dot/minus up to the stated length, in batches of 512 (exhaustive, independent of the seed); (near-valid) \
         random literals of up to 45 digits / 31 decimals, half of them with one edit, one in five within a few units (or a few thousand) of 2^31, 2^32, 2^63, 2^64, 2^95, 2^96, 2^127, 2^128, 10^18, 10^28, 10^29 with the point anywhere; (in-position) literals embedded as posting \
         amount, @ and @@ cost, {} and {{}} lot price, balance assertion, commodity format and eval argument, and printed by the formatter in those positions and as a bare factor / divisor / term of a parenthesised expression and as a bare balance assertion (the printed token must be what the literal's own printer gives); (cli) okane format \
         echo on files of 12 accepted literals and on one malformed literal. Oracle: independent recogniser of the C07 grammar \
         with exact (mantissa, scale) and the 96-bit/28-decimals representability bound. distinct_nontrivial counts distinct \
         batches (by content hash) containing at least one string with a digit; counters.nontrivial-strings counts the strings."
            .to_string()
    }

    fn assumptions(&self) -> Vec<String> {
        vec![
            "the reference recogniser in harness/src/model/num.rs reads the C07 statement correctly".into(),
            "literals with an empty integer part (.5) are unspecified: statement and doc/syntax.md disagree".into(),
            "representable means |mantissa| < 2^96 and at most 28 decimals (rust_decimal's documented range)".into(),
        ]
    }

    fn exhaustive(&self, tier: Tier) -> Option<String> {
        let p = plan(tier);
        Some(format!(
            "all {} strings over 7 symbols up to length {} and all {} strings over 13 symbols up to length {}; the random families are not exhaustive",
            count_upto(7, p.a_len),
            p.a_len,
            count_upto(13, p.b_len),
            p.b_len
        ))
    }
}
