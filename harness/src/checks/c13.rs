//! C13 — same input, same output: runs are deterministic.
//! Black-box: every (command, input) is run in N fresh processes of the real binary (each
//! gets a fresh random hash state); exit status, stdout and stderr must be byte-identical.

use std::path::Path;

use serde_json::json;

use crate::checks::c04::gen_report_ledger;
use crate::cli::{self, CliResult};
use crate::engine::{Check, Ctx, Recorder, Tier};
use crate::gen::pricegen::PriceScenario;
use crate::gen::splitter::Tree;
use crate::rng::Rng;

pub struct C13;

pub struct Job {
    pub family: &'static str,
    pub argv: Vec<String>,
}

fn same(a: &CliResult, b: &CliResult) -> Option<&'static str> {
    if a.code != b.code || a.signal != b.signal {
        Some("exit-status")
    } else if a.stdout != b.stdout {
        Some("stdout")
    } else if a.stderr != b.stderr {
        Some("stderr")
    } else {
        None
    }
}

/// Runs one job `n` times; reports the first difference.
pub fn run_job(rec: &mut Recorder, bin: &Path, dir: &Path, job: &Job, n: usize, input_desc: &str) -> bool {
    let argv: Vec<&str> = job.argv.iter().map(|s| s.as_str()).collect();
    rec.op(&format!("okane {} x{}", argv.first().copied().unwrap_or(""), n), input_desc);
    let Ok(first) = cli::run_okane(bin, &argv, dir) else {
        rec.count("spawn-failed");
        return true;
    };
    let cmd = if argv[0] == "primitive" { format!("primitive {}", argv.get(1).copied().unwrap_or("")) } else { argv[0].to_string() };
    if !matches!(first.code, Some(0) | Some(1)) {
        rec.violation("abnormal-exit", &format!("{}|{}|{}", cmd, job.family, first.class()), &format!("okane {:?} ended with {}", job.argv, first.class()), json!({"argv": job.argv, "input": input_desc, "stderr": first.stderr}));
        return false;
    }
    rec.count(&format!("runs:{}:{}", cmd, if first.ok() { "ok" } else { "error" }));
    for k in 1..n {
        // the repetitions also differ in everything a process inherits besides its input: time zone,
        // locale and home directory (the clock itself cannot be moved here)
        let env: &[(&str, &str)] = match k % 3 {
            0 => &[],
            1 => &[("TZ", "Pacific/Kiritimati"), ("LANG", "ja_JP.UTF-8"), ("LC_ALL", "ja_JP.UTF-8"), ("HOME", "/nonexistent")],
            _ => &[("TZ", "America/Los_Angeles"), ("LANG", "C"), ("LC_ALL", "C"), ("COLUMNS", "20"), ("NO_COLOR", "1")],
        };
        let Ok(other) = cli::run_okane_env(bin, &argv, dir, env) else { continue };
        if let Some(what) = same(&first, &other) {
            let flags: String = job.argv.iter().filter(|a| a.starts_with('-') && a.len() > 1 && !a.chars().nth(1).unwrap().is_ascii_digit()).cloned().collect::<Vec<_>>().join("");
            rec.violation(
                "output-differs-between-runs",
                &format!("{}{}|{}|{}|{}", cmd, flags, job.family, what, if first.ok() { "success" } else { "failure" }),
                &format!("okane {:?}: {} of run 1 and run {} differ", job.argv, what, k + 1),
                json!({"argv": job.argv, "input": input_desc, "run_1": {"exit": first.code, "stdout": first.stdout, "stderr": first.stderr}, "run_k": {"exit": other.code, "stdout": other.stdout, "stderr": other.stderr}, "k": k + 1}),
            );
            return false;
        }
    }
    rec.count_n("process-runs", n as u64);
    true
}

fn multi_commodity_ledger(rng: &mut Rng) -> String {
    // accounts holding 3-5 commodities, multi-commodity inferred amounts
    let comms = ["USD", "EUR", "JPY", "CHF", "GBP", "AAPL"];
    let k = 3 + rng.usize(3);
    let mut s = String::new();
    for t in 0..(1 + rng.usize(3)) {
        s.push_str(&format!("2024/01/{:02} multi {}\n", 1 + t, t));
        for c in comms.iter().take(k) {
            // account names that differ only in letter case are different accounts with a fixed order
            let name = *rng.pick(&["Assets:Pot", "Assets:Pot", "assets:pot", "Assets:POT", "ASSETS:Pot"]);
            s.push_str(&format!("    {}{}    {} {}\n", name, rng.usize(2), 1 + rng.usize(50), c));
        }
        s.push_str("    Equity:Opening\n\n");
    }
    s
}

fn error_ledger(rng: &mut Rng) -> (String, &'static str) {
    let mut s = multi_commodity_ledger(rng);
    match rng.below(4) {
        0 => {
            s.push_str("2024/02/01 bad assertion\n    Assets:Pot0    1 USD = 12345 USD\n    Equity:Opening\n");
            (s, "failing-assertion-on-multi-commodity-account")
        }
        1 => {
            s.push_str("2024/02/01 bad zero assertion\n    Assets:Pot0    1 USD = 0\n    Equity:Opening\n");
            (s, "failing-zero-assertion-on-multi-commodity-account")
        }
        2 => {
            // three or four open commodities with mixed signs
            let k = 3 + rng.usize(2);
            s.push_str("2024/02/01 unbalanced\n");
            for (i, c) in ["USD", "EUR", "JPY", "CHF"].iter().take(k).enumerate() {
                let v = (1 + rng.usize(900)) as i64 * if rng.chance(1, 2) { -1 } else { 1 };
                s.push_str(&format!("    Assets:Pot{}    {} {}\n", i % 2, v, c));
            }
            (s, "unbalanced-residual-in-several-commodities")
        }
        _ => {
            s.push_str("2024/02/01 zero assign\n    Assets:Pot0    = 0\n    Equity:Opening\n");
            (s, "zero-assignment-on-multi-commodity-account")
        }
    }
}

/// Equal-distance conversion chains with different rates, and several unconvertible commodities.
fn tie_scenario(rng: &mut Rng) -> (String, String, &'static str) {
    if rng.chance(1, 3) {
        // two first-level commodities tied in distance to TGT, a second-level one reachable over both
        // (different dates, different rates) and the held commodity hanging off it by a price older
        // than everything else: the oldest price decides the staleness of either chain
        let da = 12 + rng.usize(5);
        let db1 = 11 + rng.usize(7);
        let mut db2 = 11 + rng.usize(7);
        if db2 == db1 {
            db2 = if db1 == 17 { 11 } else { db1 + 1 };
        }
        let dd = 5 + rng.usize(5);
        let db = format!(
            "P 2024/01/{:02} MA {} TGT\nP 2024/01/{:02} MB {} TGT\nP 2024/01/{:02} MID {} MA\nP 2024/01/{:02} MID {} MB\nP 2024/01/{:02} XAU {} MID\n",
            da, 1 + rng.usize(4), da, 1 + rng.usize(4), db1, 1 + rng.usize(3), db2, 2 + rng.usize(3), dd, 1 + rng.usize(9)
        );
        let ledger = String::from("2024/01/05 hold\n    Assets:Vault    10 XAU\n    Assets:Vault    3 TGT\n    Assets:Vault    7 MID\n    Equity:Opening\n\n");
        return (ledger, db, "tie-under-staler-leaf");
    }
    let d = "2024/01/10";
    let via = 2 + rng.usize(3);
    let mut db = String::new();
    for i in 0..via {
        db.push_str(&format!("P {} XAU {} M{}\n", d, 2 + i, ["A", "B", "C", "D"][i]));
        db.push_str(&format!("P {} M{} {} TGT\n", d, ["A", "B", "C", "D"][i], 5 + 2 * i));
    }
    let mut ledger = String::from("2024/01/05 hold\n    Assets:Vault    10 XAU\n    Assets:Vault    3 TGT\n    Equity:Opening\n\n");
    let family;
    if rng.chance(1, 2) {
        // holdings with no route to TGT at all
        ledger.push_str("2024/01/06 stray\n    Assets:Stray    1 QQA\n    Assets:Stray    2 QQB\n    Assets:Stray    3 QQC\n    Equity:Opening\n\n");
        // further accounts, each with one holding that has no route either: which account the
        // failure names must not depend on the run
        ledger.push_str("2024/01/07 more strays\n    Assets:Alpha    5000 MILES\n    Liabilities:Zebra    -12 LUNCH\n    Expenses:Middle    3 POINTS\n    Equity:Opening\n\n");
        family = "several-unconvertible-commodities";
    } else {
        family = "equal-distance-chains";
    }
    (ledger, db, family)
}

impl Check for C13 {
    fn id(&self) -> &'static str {
        "C13"
    }
    fn cases(&self, tier: Tier) -> u64 {
        tier.pick(1_400, 6_000)
    }
    fn chunk(&self, _tier: Tier) -> u64 {
        10
    }
    fn case_cpu_limit(&self) -> u64 {
        60
    }
    fn run(&self, ctx: &Ctx, idx: u64, rec: &mut Recorder) {
        let mut rng = Rng::for_case(ctx.seed, "C13", idx);
        let n = ctx.tier.pick(6, 20);
        let dir = ctx.scratch.join(format!("c13-{}", idx));
        let _ = std::fs::remove_dir_all(&dir);
        let _ = std::fs::create_dir_all(&dir);
        let lp = dir.join("l.ledger");
        let lps = lp.to_string_lossy().into_owned();
        let dbp = dir.join("prices.db");
        let dbs = dbp.to_string_lossy().into_owned();
        let mut jobs: Vec<Job> = Vec::new();
        let input_desc;
        let s = |x: &str| x.to_string();
        match idx % 9 {
            7 => {
                // one account holding 4-6 commodities whose rates into TGT do not terminate (1/3, 2/7,
                // ...) next to amounts with many integer digits: the converted sum needs more than
                // the 28 digits a decimal carries, so the order of the additions shows in the last digit
                let names = ["ACME", "BOLT", "CRUX", "DELTA", "ECHO"];
                let k = 3 + rng.usize(3);
                let mut ledger = String::new();
                let mut holdings = String::from("2024/01/20 holdings\n");
                let mut expr = String::new();
                for (i, c) in names.iter().take(k).enumerate() {
                    let den = *rng.pick(&[3u32, 7, 9, 11, 13, 6, 17]);
                    let num = 1 + rng.usize(5);
                    ledger.push_str(&format!("2024/01/{:02} rate {}\n    Assets:Trade    {} {} @@ {} TGT\n    Equity:Trade\n\n", 2 + i, c, den, c, num));
                    let held = match rng.below(3) {
                        0 => format!("{}", 1 + rng.usize(9)),
                        1 => format!("{}.{}", 10 + rng.usize(90000), 1 + rng.usize(9)),
                        _ => format!("{}", 1_000_000 + rng.usize(900_000_000)),
                    };
                    holdings.push_str(&format!("    Assets:Mix    {} {}\n", held, c));
                    expr.push_str(&format!("{} {} + ", held, c));
                }
                let own = format!("{}.{}", 10 + rng.usize(990), rng.usize(100));
                holdings.push_str(&format!("    Assets:Mix    {} TGT\n    Equity:Opening\n", own));
                expr.push_str(&format!("{} TGT", own));
                ledger.push_str(&holdings);
                let _ = std::fs::write(&lp, &ledger);
                jobs.push(Job { family: "wide-converted-sum", argv: vec![s("balance"), s("-X"), s("TGT"), s("--now"), s("2024-02-01"), lps.clone()] });
                jobs.push(Job { family: "wide-converted-sum", argv: vec![s("balance"), s("-X"), s("TGT"), s("--historical"), s("--now"), s("2024-02-01"), lps.clone()] });
                jobs.push(Job { family: "wide-converted-sum", argv: vec![s("primitive"), s("eval"), s("--date"), s("2024-02-01"), s("-X"), s("TGT"), s("-f"), lps.clone(), s("--"), format!("({})", expr)] });
                input_desc = ledger;
            }
            0 => {
                // accepted generated ledger: all report commands
                let Some((ledger, _)) = gen_report_ledger(&mut rng, 3, 12) else {
                    rec.skip();
                    return;
                };
                let text = ledger.text();
                let _ = std::fs::write(&lp, &text);
                for cmd in ["balance", "register"] {
                    jobs.push(Job { family: "generated-ledger", argv: vec![s(cmd), s("--now"), s("2030-01-01"), lps.clone()] });
                }
                jobs.push(Job { family: "generated-ledger", argv: vec![s("accounts"), lps.clone()] });
                jobs.push(Job { family: "generated-ledger", argv: vec![s("format"), lps.clone()] });
                input_desc = text;
            }
            1 => {
                let text = multi_commodity_ledger(&mut rng);
                let _ = std::fs::write(&lp, &text);
                for cmd in ["balance", "register"] {
                    jobs.push(Job { family: "multi-commodity-accounts", argv: vec![s(cmd), s("--now"), s("2030-01-01"), lps.clone()] });
                }
                jobs.push(Job { family: "multi-commodity-accounts", argv: vec![s("register"), s("--now"), s("2030-01-01"), lps.clone(), s("Equity:Opening")] });
                input_desc = text;
            }
            2 => {
                let (text, family) = error_ledger(&mut rng);
                let _ = std::fs::write(&lp, &text);
                for cmd in ["balance", "register"] {
                    jobs.push(Job { family, argv: vec![s(cmd), s("--now"), s("2030-01-01"), lps.clone()] });
                }
                input_desc = text;
            }
            3 => {
                let (ledger, db, family) = tie_scenario(&mut rng);
                let _ = std::fs::write(&lp, &ledger);
                let _ = std::fs::write(&dbp, &db);
                jobs.push(Job { family, argv: vec![s("balance"), s("-X"), s("TGT"), s("--now"), s("2024-02-01"), s("--price-db"), dbs.clone(), lps.clone()] });
                jobs.push(Job { family, argv: vec![s("balance"), s("-X"), s("TGT"), s("--historical"), s("--now"), s("2024-02-01"), s("--price-db"), dbs.clone(), lps.clone()] });
                jobs.push(Job { family, argv: vec![s("primitive"), s("eval"), s("--date"), s("2024-02-01"), s("-X"), s("TGT"), s("--price-db"), dbs.clone(), s("-f"), lps.clone(), s("--"), s("1 XAU")] });
                input_desc = format!("=== ledger\n{}=== price db\n{}", ledger, db);
            }
            4 => {
                // random price scenario with holdings: -X reports and eval
                let sc = PriceScenario::generate(&mut rng, 40);
                let mut ledger = sc.ledger_text();
                ledger.push_str("2024/03/20 holdings\n");
                for c in &sc.commodities {
                    ledger.push_str(&format!("    Assets:Mix    {} {}\n", 1 + rng.usize(20), c));
                }
                ledger.push_str("    Equity:Opening\n");
                let _ = std::fs::write(&lp, &ledger);
                let has_db = !sc.price_db.is_empty();
                if has_db {
                    let _ = std::fs::write(&dbp, &sc.price_db);
                }
                let t = rng.pick(&sc.commodities).clone();
                let mut a = vec![s("balance"), s("-X"), t.clone(), s("--now"), s("2024-04-01")];
                if has_db {
                    a.push(s("--price-db"));
                    a.push(dbs.clone());
                }
                let mut b = a.clone();
                b.insert(3, s("--historical"));
                a.push(lps.clone());
                b.push(lps.clone());
                jobs.push(Job { family: "price-scenario", argv: a });
                jobs.push(Job { family: "price-scenario", argv: b });
                let from = rng.pick(&sc.commodities).clone();
                let mut e = vec![s("primitive"), s("eval"), s("--date"), s("2024-04-01"), s("-X"), t];
                if has_db {
                    e.push(s("--price-db"));
                    e.push(dbs.clone());
                }
                e.extend([s("-f"), lps.clone(), s("--"), format!("1 {}", from)]);
                jobs.push(Job { family: "price-scenario", argv: e });
                input_desc = format!("=== ledger\n{}=== price db\n{}", ledger, sc.price_db);
            }
            6 => {
                // expressions in which several commodities cancel: which commodity (if any) the zero
                // keeps must not depend on the run
                let comms = ["USD", "EUR", "JPY", "CHF"];
                let k = 2 + rng.usize(3);
                let mut e = String::new();
                for (i, c) in comms.iter().take(k).enumerate() {
                    let v = 1 + rng.usize(20);
                    if i > 0 {
                        e.push_str(" + ");
                    }
                    e.push_str(&format!("{} {} - {} {}", v, c, v, c));
                }
                let text = match rng.below(3) {
                    0 => format!("2024/01/01 hold\n    Assets:Pot    5 USD\n    Equity:Opening\n\n2024/01/02 cancel\n    Assets:Pot    ({})\n    Equity:Opening\n", e),
                    1 => format!("2024/01/01 hold\n    Assets:Pot    5 USD\n    Equity:Opening\n\n2024/01/02 cancel\n    Assets:Pot    1 USD = ({})\n    Equity:Opening\n", e),
                    _ => format!("2024/01/01 hold\n    Assets:Pot    5 USD\n    Equity:Opening\n\n2024/01/02 cancel\n    Assets:Pot    = ({})\n    Equity:Opening\n", e),
                };
                let _ = std::fs::write(&lp, &text);
                for cmd in ["balance", "register"] {
                    jobs.push(Job { family: "cancelling-commodities-expression", argv: vec![s(cmd), s("--now"), s("2030-01-01"), lps.clone()] });
                }
                jobs.push(Job { family: "cancelling-commodities-expression", argv: vec![s("primitive"), s("eval"), s("--date"), s("2024-02-01"), s("-f"), lps.clone(), s("--"), format!("({})", e)] });
                input_desc = text;
            }
            5 => {
                // include tree with globs: flatten and balance
                let Some(ledger) = crate::checks::c11::gen_ordered_ledger(&mut rng, 2, 8) else {
                    rec.skip();
                    return;
                };
                let entries: Vec<String> = ledger.entries.iter().map(|e| crate::gen::ledger::entry_text(e).0).collect();
                let tree = Tree::split(&mut rng, &entries);
                if tree.write_real(&dir).is_err() {
                    rec.skip();
                    return;
                }
                let root = dir.join(&tree.root).to_string_lossy().into_owned();
                jobs.push(Job { family: "include-tree", argv: vec![s("primitive"), s("flatten"), root.clone()] });
                jobs.push(Job { family: "include-tree", argv: vec![s("balance"), s("--now"), s("2030-01-01"), root] });
                input_desc = tree.files.iter().map(|(p, c)| format!("=== {}\n{}", p, c)).collect();
            }
            _ => {
                // import with rules that have several capturing matchers
                let Some((jobs2, desc)) = crate::checks::import_common::determinism_jobs(&mut rng, &dir) else {
                    rec.skip();
                    let _ = std::fs::remove_dir_all(&dir);
                    return;
                };
                jobs = jobs2;
                input_desc = desc;
            }
        }
        rec.nontrivial(&input_desc);
        for job in &jobs {
            if !run_job(rec, &ctx.cli_a, &dir, job, n, &input_desc) {
                break;
            }
        }
        if ctx.tier == Tier::Thorough && idx % 5 == 0 && !rec.has_violation() {
            // the shipped (plain release) flavour as well
            for job in jobs.iter().take(2) {
                if !run_job(rec, &ctx.cli_b, &dir, job, 6, &input_desc) {
                    break;
                }
            }
        }
        if rec.wants_sample() {
            rec.sample(json!({"argv": jobs.first().map(|j| j.argv.clone()), "input_head": input_desc.chars().take(500).collect::<String>(), "repetitions": n}));
        }
        let _ = std::fs::remove_dir_all(&dir);
    }
    fn rule(&self) -> String {
        "Every case builds one input and 2-4 commands over it; each command is run in 6 (quick) / 20 (thorough) fresh processes of the real okane binary with a \
         scrubbed environment and explicit --now (the repetitions rotate through three settings of TZ / LANG / LC_ALL / HOME / COLUMNS); exit status, stdout and stderr of all runs must be byte-identical. Input families (round-robin): generated accepted \
         ledgers (balance, register, accounts, format); accounts holding 3-6 commodities and multi-commodity inferred postings (balance, register, register of one \
         account); failing assertions / zero assertions / zero assignments on multi-commodity accounts and residuals in four commodities (error text); price graphs \
         with 2-4 equal-distance chains of different rate, two tied first-level commodities under a second-level one whose leaf hangs off an older price, and holdings with several unconvertible commodities (balance -X, --historical, primitive eval -X); random \
         price scenarios with holdings in every commodity; one account holding 4-6 commodities with non-terminating rates (n/3, n/7, ...) next to 9-digit amounts, so that the converted sum exceeds 28 significant digits (balance -X, --historical, primitive eval -X of the sum); posting amounts / assertions / assignments written as expressions in which 2-4 commodities cancel; include trees with globs (primitive flatten, balance); imports whose rewrite rules have several capturing \
         matchers (CSV and ISO Camt053); CSV imports whose configuration has several defects at once (2-5 labels missing from the header, three different invalid field templates, three invalid patterns in one rule map: error text). With k >= 3 commodities in one printed amount a hash-ordered print differs between two runs with probability >= 5/6, so 6 \
         runs miss it with probability < 1e-3 per input. Distinct by input text."
            .to_string()
    }
    fn assumptions(&self) -> Vec<String> {
        vec![
            "the wall clock cannot be moved in this sandbox; the one documented clock input (--now default) is always given explicitly".into(),
            "each fresh process gets a fresh std RandomState; the check is probabilistic in that seed".into(),
        ]
    }
    fn min_nontrivial(&self, tier: Tier) -> u64 {
        tier.pick(300, 4000)
    }
    fn workers(&self, _tier: Tier) -> usize {
        16
    }
}
