//! Small generated ledgers for the supplementary sanitizer passes (Miri probe, valgrind
//! memcheck on the release binary): accepted histories written through aliases (interned
//! strings compared by pointer into the bump arena), rejected ledgers (error paths drop
//! partially built transactions), grammar-generated texts for the parser and printer, include-free so that the in-memory loader suffices.

use crate::gen::alias::{AliasPlan, RandomNamer};
use crate::gen::bookgen;
use crate::rng::Rng;

pub fn dump(n: u64, seed: u64, dir: &str) -> i32 {
    let _ = std::fs::create_dir_all(dir);
    let mut all = String::new();
    for k in 0..n {
        let mut rng = Rng::for_case(seed, "sanitizer", k);
        let profile = match k % 3 {
            0 => bookgen::P_ASSERT,
            1 => bookgen::P_BALANCE,
            _ => bookgen::P_INFER,
        };
        let (ledger, _, _, _) = bookgen::gen_case(&mut rng, profile);
        let text = if k % 4 == 3 {
            // a grammar-generated text (every production of doc/syntax.md, hostile whitespace, Unicode)
            let mut g = crate::gen::syntax::SynGen::new(Rng::for_case(seed, "sanitizer-syntax", k), crate::gen::syntax::FeatSet::ALL);
            g.allow_include = false;
            let n = 1 + rng.usize(4);
            g.file(n).text
        } else if k % 2 == 0 {
            let plan = AliasPlan::random(&mut rng, &ledger);
            let declared = plan.declare(&ledger);
            let mut namer = RandomNamer::new(&plan, seed ^ k, 60);
            declared.render_named(&mut namer).text
        } else {
            ledger.text()
        };
        if std::fs::write(format!("{}/case-{:03}.ledger", dir, k), &text).is_err() {
            return 2;
        }
        if k > 0 {
            all.push_str("\n%%%%\n");
        }
        all.push_str(&text);
    }
    if std::fs::write(format!("{}/cases.txt", dir), all).is_err() {
        return 2;
    }
    0
}
