//! C19 — formatted postings are laid out in aligned columns.

use serde_json::json;

use crate::checks::c05::format_text;
use crate::cli;
use crate::engine::{guarded, Check, Ctx, Recorder, Tier};
use crate::rng::Rng;

pub struct C19;

/// Display width from explicit code-point ranges; the generator only emits characters from
/// these classes (no East-Asian *ambiguous* characters), so the model does not depend on the
/// width tables of the crate the code uses.
pub fn char_width(c: char) -> usize {
    let u = c as u32;
    if u < 0x7f {
        return 1;
    }
    let wide = (0x3040..=0x30ff).contains(&u) // Hiragana, Katakana
        || (0x4e00..=0x9fff).contains(&u) // CJK unified ideographs
        || (0xac00..=0xd7a3).contains(&u) // Hangul syllables
        || (0xff01..=0xff60).contains(&u); // full-width forms
    if wide {
        2
    } else {
        1
    }
}

pub fn width(s: &str) -> usize {
    s.chars().map(char_width).sum()
}

const WIDE: &[char] = &['資', '産', '銀', '行', '食', '費', 'カ', 'ー', 'ド', 'あ', 'い', '은', '행', 'Ａ', '１'];
const NARROW: &[char] = &['a', 'b', 'Z', 'x', '7', '-', '_', '.', '%', '&'];

fn gen_account(rng: &mut Rng, target: usize) -> String {
    // builds an account of exactly `target` display columns: segments separated by ':',
    // occasional single inner spaces, wide characters mixed in according to `style`.
    let style = rng.below(3); // 0 ascii, 1 mixed, 2 mostly wide
    let mut s = String::new();
    let mut w = 0;
    let mut last_sep = true;
    while w < target {
        let left = target - w;
        let roll = rng.below(12);
        if !last_sep && left > 1 && roll == 0 {
            s.push(':');
            w += 1;
            last_sep = true;
            continue;
        }
        if !last_sep && left > 1 && roll == 1 {
            s.push(' ');
            w += 1;
            last_sep = true;
            continue;
        }
        let use_wide = left >= 2 && match style {
            0 => false,
            1 => rng.chance(1, 3),
            _ => rng.chance(4, 5),
        };
        if use_wide {
            s.push(*rng.pick(WIDE));
            w += 2;
        } else if last_sep {
            // first character of a segment: a letter (never a digit, space or punctuation)
            s.push(*rng.pick(&['A', 'E', 'L', 'q', 'm']));
            w += 1;
        } else {
            s.push(*rng.pick(NARROW));
            w += 1;
        }
        last_sep = false;
    }
    // must not end with a separator
    if s.ends_with(':') || s.ends_with(' ') {
        s.pop();
        s.push('k');
    }
    s
}

fn gen_number(rng: &mut Rng) -> String {
    let int_digits = 1 + rng.usize(10);
    let mut int: String = (0..int_digits).map(|i| if i == 0 { char::from(b'1' + rng.below(9) as u8) } else { char::from(b'0' + rng.below(10) as u8) }).collect();
    if int_digits > 3 && rng.chance(1, 2) {
        let mut g = String::new();
        for (i, c) in int.chars().enumerate() {
            if i > 0 && (int_digits - i) % 3 == 0 {
                g.push(',');
            }
            g.push(c);
        }
        int = g;
    }
    let frac = *rng.pick(&[0usize, 0, 2, 2, 4, 1, 6]);
    let mut s = String::new();
    if rng.chance(1, 3) {
        s.push('-');
    }
    s.push_str(&int);
    if frac > 0 {
        s.push('.');
        for _ in 0..frac {
            s.push(char::from(b'0' + rng.below(10) as u8));
        }
    }
    s
}

const COMMODITIES: &[&str] = &["USD", "JPY", "AAPL", "円", "株", "Pt", "ドル", "X"];

#[derive(Clone, Debug)]
struct PostingSpec {
    mark: &'static str,
    account: String,
    /// text of the amount as written (already in the printer's normal form), if any
    amount: Option<String>,
    /// number of characters of `amount` up to and including the last character of the number that is aligned
    align: usize,
    tail: String,
    /// `= ...` text after the `=` (normal form), and the display width of what follows the number in it
    assertion: Option<(String, usize)>,
    meta: Vec<String>,
}

fn gen_posting(rng: &mut Rng) -> PostingSpec {
    let mark = *rng.pick(&["", "", "* ", "! "]);
    let target = match rng.below(10) {
        0 => 1 + rng.usize(8),
        1..=3 => 38 + rng.usize(16), // around the alignment boundary
        _ => 1 + rng.usize(70),
    };
    let account = gen_account(rng, target);
    let c = *rng.pick(COMMODITIES);
    let kind = rng.below(10);
    let mut amount = None;
    let mut align = 0;
    let mut tail = String::new();
    let mut assertion = None;
    let num = gen_number(rng);
    if kind < 7 {
        let form = rng.below(8);
        let (text, a) = match form {
            0 => {
                let k = 2 + rng.below(8);
                (format!("({} {} * {})", num, c, k), 1 + num.len())
            }
            1 => {
                let k = 2 + rng.below(8);
                let ks = k.to_string();
                (format!("({} * {} {})", ks, num, c), 1 + ks.len() + 3 + num.len())
            }
            2 => {
                let k = gen_number(rng);
                (format!("({} + {})", num, k), num.len() + k.len() + 5)
            }
            3 => (num.clone(), num.len()), // bare number
            _ => (format!("{} {}", num, c), num.len()),
        };
        // a bare non-zero number is not a valid amount for book-keeping but is for the formatter
        amount = Some(text);
        align = a;
        if rng.chance(1, 5) {
            tail.push_str(&format!(" {{{} EUR}}", gen_number(rng).trim_start_matches('-')));
        }
        if rng.chance(1, 8) {
            tail.push_str(" [2024/01/05]");
        }
        if rng.chance(1, 4) {
            tail.push_str(&format!(" {} {} CHF", if rng.chance(1, 2) { "@" } else { "@@" }, gen_number(rng).trim_start_matches('-')));
        }
        if rng.chance(1, 4) {
            let b = gen_number(rng);
            assertion = Some((format!("{} {}", b, c), 1 + width(c)));
        }
    } else if kind < 9 {
        // assertion only
        let aw = width(mark) + width(&account);
        match rng.below(10) {
            0 | 1 => assertion = Some(("0".to_string(), 0)),
            2 | 3 => {
                // a parenthesised expression: what follows its first number trails behind the column
                let k = 2 + rng.below(8);
                let text = match rng.below(3) {
                    0 => format!("({} {} + 20 {})", num, c, c),
                    1 => format!("({} {} * {})", num, c, k),
                    _ => format!("({} * {} {})", k, num, c),
                };
                // aligned is the number that carries the commodity (as for a posting amount)
                let aligned = if text.starts_with(&format!("({} {} ", num, c)) { 1 + num.len() } else { 1 + k.to_string().len() + 3 + num.len() };
                let trailing = width(&text) - aligned;
                assertion = Some((text, trailing));
            }
            4 | 5 => {
                // a long commodity name; one in two is chosen so that the padding is exactly 64 columns
                let len = if aw + 15 <= 60 && rng.chance(1, 2) { aw + 15 } else { 10 + rng.usize(40) };
                let long: String = (0..len).map(|i| (b'A' + (i % 26) as u8) as char).collect();
                assertion = Some((format!("{} {}", num, long), 1 + len));
            }
            _ => assertion = Some((format!("{} {}", num, c), 1 + width(c))),
        }
    }
    let mut meta = Vec::new();
    if rng.chance(1, 6) {
        meta.push(rng.pick(&["note", "メモ 書き", ":tag:", "Key: value"]).to_string());
    }
    PostingSpec { mark, account, amount, align, tail, assertion, meta }
}

fn render_input(rng: &mut Rng, entries: &[(String, Vec<PostingSpec>, Vec<String>)]) -> String {
    let mut s = String::new();
    for (header, posts, txn_meta) in entries {
        s.push_str(header);
        s.push('\n');
        for m in txn_meta {
            s.push_str(&format!("  ; {}\n", m));
        }
        for p in posts {
            // input spacing is deliberately irregular: the formatter must lay it out
            let sep = *rng.pick(&["  ", "\t", "     ", "  \t "]);
            s.push_str(*rng.pick(&["  ", "    ", "\t"]));
            s.push_str(p.mark);
            s.push_str(&p.account);
            if let Some(a) = &p.amount {
                s.push_str(sep);
                s.push_str(a);
                s.push_str(&p.tail);
            }
            if let Some((b, _)) = &p.assertion {
                if p.amount.is_none() {
                    s.push_str(sep);
                } else {
                    s.push(' ');
                }
                s.push_str("= ");
                s.push_str(b);
            }
            s.push('\n');
            for m in &p.meta {
                s.push_str(&format!("      ; {}\n", m));
            }
        }
        for _ in 0..(1 + rng.usize(3)) {
            s.push('\n');
        }
    }
    s
}

/// Checks the layout of `out` against the specs. Returns (clause, class, message) on failure.
fn check_layout(out: &str, entries: &[(String, Vec<PostingSpec>, Vec<String>)]) -> Result<(), (&'static str, String, String)> {
    let lines: Vec<&str> = out.split('\n').collect();
    // output ends with "\n" after a blank line: last element is "" (after final newline)
    let mut li = 0usize;
    let total = entries.len();
    for (ei, (header, posts, txn_meta)) in entries.iter().enumerate() {
        let Some(h) = lines.get(li) else { return Err(("output-truncated", "header".into(), format!("entry {} missing from the output", ei + 1))) };
        if h.starts_with(' ') || h.is_empty() {
            return Err(("entry-separation", if h.is_empty() { "extra-blank-line".into() } else { "indented-header".into() }, format!("expected the header of entry {} on output line {}, found `{}`", ei + 1, li + 1, h)));
        }
        let _ = header;
        li += 1;
        for m in txn_meta {
            let Some(l) = lines.get(li) else { return Err(("output-truncated", "meta".into(), "transaction metadata missing".into())) };
            if !l.starts_with("    ;") || l.starts_with("     ") {
                return Err(("metadata-indent", "transaction".into(), format!("transaction metadata `{}` is printed as `{}`", m, l)));
            }
            li += 1;
        }
        for p in posts {
            let Some(l) = lines.get(li) else { return Err(("output-truncated", "posting".into(), "posting missing".into())) };
            li += 1;
            let head = format!("    {}{}", p.mark, p.account);
            if !l.starts_with(&head) || l.starts_with("     ") {
                return Err(("posting-indent", if p.mark.is_empty() { "plain".into() } else { "with-mark".into() }, format!("posting line `{}` does not start with four spaces + `{}{}`", l, p.mark, p.account)));
            }
            let rest = &l[head.len()..];
            let aw = width(p.mark) + width(&p.account);
            let wide_acct = p.account.chars().any(|c| char_width(c) == 2);
            let acct_class = format!("{}{}", if wide_acct { "wide-account" } else { "ascii-account" }, if p.mark.is_empty() { "" } else { "+mark" });
            if p.amount.is_none() && p.assertion.is_none() {
                if !rest.is_empty() {
                    return Err(("trailing-text", acct_class, format!("amount-less posting printed as `{}`", l)));
                }
            } else {
                let spaces = rest.len() - rest.trim_start_matches(' ').len();
                if spaces < 2 {
                    return Err(("fewer-than-two-spaces-after-account", format!("{}|{}", acct_class, if p.amount.is_some() { "amount" } else { "assertion-only" }), format!("`{}`: {} space(s) after the account (display width {})", l, spaces, aw)));
                }
                let body = &rest[spaces..];
                if let Some(a) = &p.amount {
                    if !body.starts_with(a.as_str()) {
                        return Err(("amount-text-changed", acct_class, format!("amount `{}` printed as `{}`", a, body)));
                    }
                    let end_col = 4 + aw + spaces + p.align;
                    let want = std::cmp::max(52, 4 + aw + 2 + p.align);
                    if end_col != want {
                        let fits = 4 + aw + 2 + p.align <= 52;
                        return Err((
                            "number-not-at-column",
                            format!("{}|{}|{}", acct_class, if fits { "short-account" } else { "long-account" }, amount_shape(a)),
                            format!("`{}`: the aligned number ends at display column {}, expected {} (account width {}, number prefix {})", l, end_col, want, aw, p.align),
                        ));
                    }
                    if let Some((b, _)) = &p.assertion {
                        let want_tail = format!("{}{} = {}", a, p.tail, b);
                        if body != want_tail {
                            return Err(("assertion-spacing", acct_class, format!("expected `{}` after the account, found `{}`", want_tail, body)));
                        }
                    }
                } else if let Some((b, trailing)) = &p.assertion {
                    if !body.starts_with("= ") || &body[2..] != b.as_str() {
                        return Err(("assertion-text-changed", acct_class, format!("assertion `= {}` printed as `{}`", b, body)));
                    }
                    let eq_col = 4 + aw + spaces + 1;
                    let want = std::cmp::max(54 + trailing, 4 + aw + 3);
                    if eq_col != want {
                        let wide_comm = b.chars().any(|c| char_width(c) == 2);
                        return Err((
                            "assertion-only-equals-not-at-column",
                            format!("{}|{}|{}", acct_class, if 4 + aw + 3 <= 54 + trailing { "short-account" } else { "long-account" }, if wide_comm { "wide-commodity" } else if *trailing == 0 { "bare-zero" } else { "ascii-commodity" }),
                            format!("`{}`: `=` at display column {}, expected {} (where it falls after an amount in that commodity)", l, eq_col, want),
                        ));
                    }
                }
            }
            for m in &p.meta {
                let Some(l) = lines.get(li) else { return Err(("output-truncated", "meta".into(), "posting metadata missing".into())) };
                if !l.starts_with("    ;") || l.starts_with("     ") {
                    return Err(("metadata-indent", "posting".into(), format!("posting metadata `{}` is printed as `{}`", m, l)));
                }
                li += 1;
            }
        }
        // exactly one blank line after the entry
        match lines.get(li) {
            Some(l) if l.is_empty() => li += 1,
            other => return Err(("entry-separation", "missing-blank-line".into(), format!("no blank line after entry {}: found {:?}", ei + 1, other))),
        }
        if ei + 1 < total {
            if let Some(l) = lines.get(li) {
                if l.is_empty() {
                    return Err(("entry-separation", "extra-blank-line".into(), format!("more than one blank line after entry {}", ei + 1)));
                }
            }
        }
    }
    // after the last entry's blank line only the final "" of split remains
    if lines.len() != li + 1 || !lines[li].is_empty() {
        return Err(("entry-separation", "trailing-lines".into(), format!("unexpected trailing output after the last entry: {:?}", &lines[li.min(lines.len())..])));
    }
    Ok(())
}

fn amount_shape(a: &str) -> &'static str {
    if a.starts_with('(') {
        "expression"
    } else if a.contains(' ') {
        "literal"
    } else {
        "bare-number"
    }
}

impl Check for C19 {
    fn id(&self) -> &'static str {
        "C19"
    }
    fn cases(&self, tier: Tier) -> u64 {
        tier.pick(60_000, 3_000_000)
    }
    fn run(&self, ctx: &Ctx, idx: u64, rec: &mut Recorder) {
        let mut rng = Rng::for_case(ctx.seed, "C19", idx);
        let n = 1 + rng.usize(4);
        let mut entries = Vec::new();
        let mut seen_accounts: Vec<String> = Vec::new();
        for k in 0..n {
            let header = match rng.below(4) {
                0 => format!("2024/01/{:02} * (c{}) Payee {}", 1 + k, k, k),
                1 => format!("2024/01/{:02} 支払い {}", 1 + k, k),
                _ => format!("2024/01/{:02} Payee {}", 1 + k, k),
            };
            // now and then a one-line top-level comment (with or without text) or a declaration
            // stands between the transactions: it is an entry like any other
            if rng.chance(1, 4) {
                let c = *rng.pick(&[";", "#", ";;;;;;;;", "%", "; note to self", "* starred", ";   ", "# メモ", "account Assets:Declared", "commodity CHF"]);
                entries.push((c.to_string(), vec![], vec![]));
            }
            let np = 1 + rng.usize(4);
            let mut posts: Vec<PostingSpec> = (0..np).map(|_| gen_posting(&mut rng)).collect();
            // an account may come back in a later posting, with or without the same clear mark
            if let Some(prev) = seen_accounts.last().cloned() {
                if rng.chance(1, 4) {
                    let k = rng.usize(posts.len());
                    posts[k].account = prev;
                    posts[k].mark = *rng.pick(&["", "* ", "! "]);
                }
            }
            for p in &posts {
                seen_accounts.push(p.account.clone());
            }
            let txn_meta = if rng.chance(1, 5) { vec!["txn note".to_string()] } else { vec![] };
            entries.push((header, posts, txn_meta));
        }
        let input = render_input(&mut rng, &entries);
        rec.op("FormatOptions::format (layout)", &input);
        let Some(out) = guarded(rec, || format_text(&input)) else { return };
        let out = match out {
            Ok(o) => o,
            Err(e) => {
                rec.violation("generated-text-rejected", "format", &format!("the formatter rejected a generated ledger: {}", e), json!({"input": input}));
                return;
            }
        };
        rec.nontrivial(&input);
        for (_, posts, _) in &entries {
            for p in posts {
                let aw = width(p.mark) + width(&p.account);
                rec.count(&format!("account-width:{}", match aw { 0..=20 => "1-20", 21..=40 => "21-40", 41..=50 => "41-50", _ => "51+" }));
                rec.count(if p.amount.is_some() { "posting:amount" } else if p.assertion.is_some() { "posting:assertion-only" } else { "posting:bare" });
            }
        }
        if let Err((clause, class, what)) = check_layout(&out, &entries) {
            rec.violation(clause, &class, &what, json!({"input": input, "output": out}));
            return;
        }
        rec.count("layout-agrees");
        // the real binary prints the same bytes
        if rng.chance(ctx.tier.pick(5, 2), 1000) {
            let dir = ctx.scratch.join("c19");
            let _ = std::fs::create_dir_all(&dir);
            let p = dir.join(format!("in-{}.ledger", idx));
            let _ = std::fs::write(&p, &input);
            let ps = p.to_string_lossy().into_owned();
            rec.op("okane format (cli)", &input);
            if let Ok(res) = cli::run_okane(&ctx.cli_a, &["format", &ps], &dir) {
                rec.count("cli:format-runs");
                if !res.ok() || res.stdout != out {
                    rec.violation("cli-format-differs", &res.class(), "`okane format` output differs from FormatOptions::format", json!({"input": input, "api_output": out, "cli_stdout": res.stdout, "stderr": res.stderr}));
                }
            }
            let _ = std::fs::remove_file(&p);
        }
        if rec.wants_sample() {
            rec.sample(json!({"input": input, "output": out}));
        }
    }
    fn rule(&self) -> String {
        "Each case: 1-4 transactions with 1-4 postings, written with irregular input spacing (2-5 spaces, tabs). Account display width sweeps 1-70 (30% of them \
         in 38-53, around the alignment boundary), built from ASCII letters/digits/punctuation, ':' separators, single inner spaces and East-Asian wide characters \
         (Hiragana, Katakana, CJK ideographs, Hangul, full-width forms; no ambiguous-width characters), with and without `* ` / `! ` marks. Amounts: numbers of 1-10 \
         integer digits, optional sign, grouping commas and 0-6 decimals, with ASCII or wide commodities or none; expressions `(N C * k)`, `(k * N C)`, `(a + b)`; \
         optional lot price, lot date, cost, assertion; assertion-only postings (`= N C`, `= 0`); amount-less postings; posting and transaction metadata. Oracle on \
         FormatOptions::format output with the width model in this file: every posting line starts with exactly four spaces + mark + account; >= 2 spaces follow the \
         account; the last character of the first commodity-bearing number (whole expression if none) sits at display column max(52, 4 + w(mark+account) + 2 + prefix); \
         an assertion-only `=` sits at max(54 + w(' ' + commodity), 4 + w + 3); `amount = assertion` separated by single spaces; metadata lines are four spaces + `;`; \
         exactly one blank line after every entry and none elsewhere (entries include one-line top-level comments, some without any text, and declarations). A sample compares `okane format` stdout byte for byte. Distinct by input text."
            .to_string()
    }
    fn assumptions(&self) -> Vec<String> {
        vec![
            "display width: ASCII = 1, Hiragana/Katakana/CJK ideographs/Hangul syllables/full-width forms = 2; no ambiguous-width characters are generated".into(),
            "'where it would fall after an amount in that commodity': number ending at column 52, one space, the commodity, one space, `=`".into(),
        ]
    }
    fn min_nontrivial(&self, tier: Tier) -> u64 {
        tier.pick(30_000, 1_000_000)
    }
}
