//! C12 — aliases are transparent; alias conflicts are rejected.

use std::collections::BTreeSet;

use serde_json::json;

use crate::checks::book::{run_code, CodeError, CodeLedger};
use crate::checks::c04::gen_report_ledger;
use crate::cli;
use crate::engine::{guarded, Check, Ctx, Recorder, Tier};
use crate::gen::alias::{AliasPlan, RandomNamer};
use crate::ops;
use crate::rng::Rng;

pub struct C12;

fn run(rec: &mut Recorder, label: &str, text: &str) -> Option<Result<CodeLedger, CodeError>> {
    let files = vec![(ops::ROOT.to_string(), text.to_string())];
    rec.op(label, text);
    guarded(rec, || run_code(&files, ops::ROOT))
}

fn names_in(l: &CodeLedger) -> (BTreeSet<String>, BTreeSet<String>) {
    let mut a = BTreeSet::new();
    let mut c = BTreeSet::new();
    for t in &l.txns {
        for (acct, m) in t {
            a.insert(acct.clone());
            c.extend(m.keys().cloned());
        }
    }
    for (acct, m) in &l.balances {
        a.insert(acct.clone());
        c.extend(m.keys().cloned());
    }
    (a, c)
}

/// Conflict scenarios. Returns (ledger text, must be rejected?, class, expected error kind).
fn conflict_case(rng: &mut Rng) -> (String, bool, String, &'static str) {
    let commodity = rng.chance(1, 2);
    let (kw, kind) = if commodity { ("commodity", "InvalidCommodity") } else { ("account", "InvalidAccount") };
    let (x, y, z) = if commodity { ("USD", "Dollar", "EUR") } else { ("Assets:Bank", "bank", "Assets:Cash") };
    // a transaction that uses `name` (as account or as commodity)
    let use_of = |name: &str, day: u32| {
        if commodity {
            format!("2024/01/{:02} use\n    Expenses:Food    5 {}\n    Equity:Opening\n\n", day, name)
        } else {
            format!("2024/01/{:02} use\n    {}    5 CHF\n    Equity:Opening\n\n", day, name)
        }
    };
    // Every declaration may carry further, harmless sub-lines around the alias lines under test:
    // fresh aliases before / after them, a note, a comment.
    let deco = std::cell::Cell::new(rng.next_u64());
    let fresh = std::cell::Cell::new(0u32);
    let decl = |canon: &str, aliases: &[&str]| {
        let bits = deco.get();
        deco.set(bits.rotate_right(7));
        let mut extra = || {
            fresh.set(fresh.get() + 1);
            if commodity {
                format!("Xtra{}", ["A", "B", "C", "D", "E", "F", "G", "H"][fresh.get() as usize % 8])
            } else {
                format!("extra{}", fresh.get())
            }
        };
        let mut s = format!("{} {}\n", kw, canon);
        if bits & 1 != 0 {
            s.push_str("    note declared with care\n");
        }
        if bits & 2 != 0 {
            s.push_str(&format!("    alias {}\n", extra()));
        }
        for (i, a) in aliases.iter().enumerate() {
            if i > 0 && bits & 4 != 0 {
                s.push_str("    ; and\n");
            }
            s.push_str(&format!("    alias {}\n", a));
        }
        if bits & 8 != 0 {
            s.push_str(&format!("    alias {}\n", extra()));
        }
        if bits & 16 != 0 {
            s.push_str("    ; end of declaration\n");
        }
        s.push('\n');
        s
    };
    let scenario = rng.below(12);
    let (text, reject, class): (String, bool, &str) = match scenario {
        // alias equal to a name declared canonical earlier
        0 => (format!("{}{}", decl(y, &[]), decl(x, &[y])), true, "alias-of-declared-canonical"),
        // alias equal to a name already used (canonical by use)
        1 => (format!("{}{}", use_of(y, 1), decl(x, &[y])), true, "alias-of-used-name"),
        // canonical declaration of a name that is already an alias
        2 => (format!("{}{}", decl(x, &[y]), decl(y, &[])), true, "canonical-of-declared-alias"),
        // alias declared, used through it, then declared canonical
        3 => (format!("{}{}{}", decl(x, &[y]), use_of(y, 1), decl(y, &[])), true, "canonical-of-used-alias"),
        // alias equal to its own canonical name
        4 => (decl(x, &[x]), true, "alias-equal-to-own-canonical"),
        // alias equal to another declared canonical, with uses in between
        5 => (format!("{}{}{}{}", decl(z, &[]), use_of(z, 1), use_of(x, 2), decl(x, &[z])), true, "alias-of-declared-canonical"),
        // second alias of the same declaration conflicts (first is fine)
        6 => (format!("{}{}", use_of(z, 1), decl(x, &[y, z])), true, "second-alias-conflicts"),
        // alias conflict inside a later, repeated declaration of the same canonical
        7 => (format!("{}{}{}", decl(x, &[y]), use_of(z, 1), decl(x, &[z])), true, "alias-of-used-name"),
        // ---- controls that must be accepted
        8 => (format!("{}{}{}", decl(x, &[y]), use_of(y, 1), use_of(x, 2)), false, "control:alias-then-use"),
        9 => (format!("{}{}{}", decl(x, &[y]), decl(x, &[y]), use_of(y, 1)), false, "control:same-declaration-twice"),
        10 => (format!("{}{}{}", use_of(x, 1), decl(x, &[y]), use_of(y, 2)), false, "control:declared-after-canonical-use"),
        _ => (format!("{}{}{}", decl(x, &[]), decl(z, &[y]), use_of(y, 1)), false, "control:two-declarations"),
    };
    (text, reject, format!("{}|{}", kw, class), kind)
}

impl Check for C12 {
    fn id(&self) -> &'static str {
        "C12"
    }
    fn cases(&self, tier: Tier) -> u64 {
        tier.pick(30_000, 1_500_000)
    }
    fn run(&self, ctx: &Ctx, idx: u64, rec: &mut Recorder) {
        let mut rng = Rng::for_case(ctx.seed, "C12", idx);
        if idx % 5 == 4 {
            // ---- conflict clause
            let (text, must_reject, class, kind) = conflict_case(&mut rng);
            let Some(r) = run(rec, "conflict-ledger", &text) else { return };
            rec.nontrivial(&text);
            match (&r, must_reject) {
                (Err(e), true) => {
                    if e.kind == kind {
                        rec.count(&format!("conflict-rejected:{}", class));
                    } else {
                        // the statement asks for a rejection, not for a particular error type
                        rec.count(&format!("conflict-rejected-with-other-error:{}:{}", class, e.kind));
                    }
                }
                (Ok(l), true) => {
                    rec.violation(
                        "conflict-accepted",
                        &class,
                        &format!("a ledger with an alias conflict ({}) was accepted; balances: {:?}", class, l.balances.keys().collect::<Vec<_>>()),
                        json!({"ledger": text, "balances": l.balances.iter().map(|(a, m)| format!("{}: {}", a, crate::model::book::multi_to_string(m))).collect::<Vec<_>>()}),
                    );
                }
                (Ok(l), false) => {
                    rec.count(&format!("control-accepted:{}", class));
                    // and the alias must have resolved: only canonical names in the report
                    let (accts, comms) = names_in(l);
                    if accts.contains("bank") || comms.contains("Dollar") {
                        rec.violation("alias-shown-in-report", &class, "a report shows an alias instead of the canonical name", json!({"ledger": text}));
                    }
                }
                (Err(e), false) => {
                    rec.violation("control-rejected", &format!("{}|{}", class, e.kind), &format!("a conflict-free alias ledger was rejected: {}", e.message), json!({"ledger": text, "error": e.rendered}));
                }
            }
            return;
        }
        // ---- transparency clause
        let Some((ledger, _)) = gen_report_ledger(&mut rng, 2, 14) else {
            rec.skip();
            return;
        };
        let plan = AliasPlan::random(&mut rng, &ledger);
        let seed = rng.next_u64();
        let pct = *rng.pick(&[20u64, 50, 80, 100]);
        let mut namer = RandomNamer::new(&plan, seed, pct);
        // a third of the cases declare the aliases only after some transactions have already used
        // the canonical names (all orders of declaration versus first use)
        let ntx = ledger.txns().count();
        let late = rng.chance(1, 3) && ntx > 1;
        let cut = if late { 1 + rng.usize(ntx - 1) } else { 0 };
        let (base, variant) = if late {
            rec.count("declarations:after-first-use");
            let b = crate::gen::alias::render_late_declarations(&ledger, &plan, cut, &mut crate::gen::ledger::Identity);
            let v = crate::gen::alias::render_late_declarations(&ledger, &plan, cut, &mut namer);
            (crate::gen::ledger::Rendered { text: b, ..Default::default() }, crate::gen::ledger::Rendered { text: v, ..Default::default() })
        } else {
            rec.count("declarations:at-top");
            let declared = plan.declare(&ledger);
            (declared.render(), declared.render_named(&mut namer))
        };
        let subs = namer.substitutions;
        if subs == 0 {
            rec.skip();
            rec.count("no-substitution");
            return;
        }
        let Some(r0) = run(rec, "canonical-ledger", &base.text) else { return };
        let Some(r1) = run(rec, "aliased-ledger", &variant.text) else { return };
        rec.count_n("alias-substitutions", subs);
        let wit = || json!({"canonical": base.text, "aliased": variant.text});
        match (&r0, &r1) {
            (Err(_), Err(_)) => {
                // rejected either way (the open C02 finding): outside "accepted ledgers"
                rec.skip();
                rec.count("both-rejected");
            }
            (Ok(_), Err(e)) => {
                rec.nontrivial(&variant.text);
                rec.violation("aliased-ledger-rejected", &e.kind, &format!("writing aliases for canonical names made an accepted ledger fail: {}", e.message), json!({"canonical": base.text, "aliased": variant.text, "error": e.rendered}));
            }
            (Err(e), Ok(_)) => {
                rec.nontrivial(&variant.text);
                rec.violation("aliased-ledger-accepted", &e.kind, &format!("the canonical ledger is rejected ({}) but its aliased spelling is accepted", e.message), wit());
            }
            (Ok(a), Ok(b)) => {
                rec.nontrivial(&variant.text);
                if a.txns != b.txns {
                    let which = a.txns.iter().zip(b.txns.iter()).position(|(x, y)| x != y).unwrap_or(0);
                    rec.violation("register-differs", "postings", &format!("stored postings differ from transaction {} on when aliases are written", which + 1), wit());
                } else if a.balances != b.balances {
                    rec.violation("balance-differs", "balances", "balance report differs when aliases are written", wit());
                } else {
                    rec.count("transparent");
                }
                let (accts, comms) = names_in(b);
                let aliases: BTreeSet<String> = plan.all_aliases().into_iter().collect();
                if let Some(x) = accts.iter().chain(comms.iter()).find(|n| aliases.contains(*n)) {
                    rec.violation("alias-shown-in-report", "api", &format!("report shows the alias `{}`", x), wit());
                }
                // the same through the real binary (text of balance and register)
                if rng.chance(ctx.tier.pick(15, 5), 1000) && !rec.has_violation() {
                    let dir = ctx.scratch.join(format!("c12-{}", idx));
                    let _ = std::fs::create_dir_all(&dir);
                    let p0 = dir.join("canonical.ledger");
                    let p1 = dir.join("aliased.ledger");
                    let _ = std::fs::write(&p0, &base.text);
                    let _ = std::fs::write(&p1, &variant.text);
                    for cmd in ["balance", "register"] {
                        let s0 = p0.to_string_lossy().into_owned();
                        let s1 = p1.to_string_lossy().into_owned();
                        rec.op(&format!("okane {} (cli)", cmd), &variant.text);
                        let o0 = cli::run_okane(&ctx.cli_a, &[cmd, "--now", "2030-01-01", &s0], &dir);
                        let o1 = cli::run_okane(&ctx.cli_a, &[cmd, "--now", "2030-01-01", &s1], &dir);
                        if let (Ok(o0), Ok(o1)) = (o0, o1) {
                            rec.count(&format!("cli:{}-pairs", cmd));
                            if o0.code != o1.code || o0.stdout != o1.stdout {
                                rec.violation("cli-output-differs", cmd, &format!("`okane {}` prints different text for the aliased spelling", cmd), json!({"canonical": base.text, "aliased": variant.text, "stdout_canonical": o0.stdout, "stdout_aliased": o1.stdout}));
                            } else if let Some(x) = aliases.iter().find(|al| o1.stdout.split(|c: char| c.is_whitespace() || c == '(' || c == ')').any(|tok| tok.trim_end_matches(':') == al.as_str())) {
                                rec.violation("alias-shown-in-report", &format!("cli-{}", cmd), &format!("`okane {}` prints the alias `{}`", cmd, x), json!({"aliased": variant.text, "stdout": o1.stdout}));
                            }
                        }
                    }
                    let _ = std::fs::remove_dir_all(&dir);
                }
            }
        }
        if rec.wants_sample() {
            rec.sample(json!({"aliased_head": variant.text.chars().take(700).collect::<String>(), "substitutions": subs}));
        }
    }
    fn rule(&self) -> String {
        "4 of 5 cases (transparency): an accepted generated ledger of 2-14 transactions (costs, lots, assertions, assignments, inferred amounts, expressions) \
         with `account` / `commodity` declarations (at the top, or - one case in three - after some transactions have already used the canonical names) giving 1-3 aliases (ASCII, with ':', Unicode) to a random 3/4 of the accounts and commodities it uses; \
         the variant writes 20/50/80/100% of the later occurrences (posting accounts; commodities in amounts, expressions, costs, lot prices, assertions) through a \
         random alias. Oracle (metamorphic): both spellings are accepted or both rejected, stored postings and balance report are identical, no alias string \
         appears in them; a sample compares `okane balance` / `okane register` stdout byte for byte. 1 of 5 cases (conflicts): 8 conflict shapes x account/commodity \
         (alias of a declared canonical, of a name canonical by use, canonical of a declared / used alias, alias equal to own canonical, second alias conflicting, \
         conflict in a repeated declaration; every declaration optionally decorated with a note, comments and further fresh aliases before / after the one under test) must be rejected (the error type is counted, not judged), 4 control shapes must be accepted and resolve the alias. \
         Non-trivial = a variant with at least one substitution, or a conflict ledger; distinct by text."
            .to_string()
    }
    fn assumptions(&self) -> Vec<String> {
        vec![
            "re-declaring an existing alias for a different canonical name is not covered by the statement and not generated".into(),
            "ledgers rejected under both spellings are outside 'accepted ledgers' and skipped".into(),
        ]
    }
    fn min_nontrivial(&self, tier: Tier) -> u64 {
        tier.pick(10_000, 500_000)
    }
}
