//! C01 — accepted transactions balance; unbalanced ones are rejected, not crashed on.

use crate::checks::book;
use crate::engine::{Check, Ctx, Recorder, Tier};
use crate::gen::bookgen;

pub struct C01;

impl Check for C01 {
    fn id(&self) -> &'static str {
        "C01"
    }
    fn cases(&self, tier: Tier) -> u64 {
        tier.pick(120_000, 15_000_000)
    }
    fn run(&self, ctx: &Ctx, idx: u64, rec: &mut Recorder) {
        book::run_book_case("C01", bookgen::P_BALANCE, ctx, idx, rec);
    }
    fn rule(&self) -> String {
        "Each case is a ledger: optional commodity declarations with precisions 0-4, a history of 0-4 accepted transactions, \
         then one shaped transaction (1-6 postings over USD/EUR/JPY/AAPL, values from a boundary pool including 0, 0.00, \
         half-unit ties 0.005/0.015/0.025, grouped thousands; costs @/@@, lot prices {}/{{}}, parenthesised expressions, \
         occasional ill-formed postings) closed by one of: computed postings that make the residual exactly zero, zero up to a \
         sub-unit offset around the rounding boundary of the declared precision, one or two commodities left open, a zero-sum \
         commodity next to the rest, an omitted amount (or two), or left as generated. Oracle: reference book-keeping \
         (harness/src/model/book.rs) classifies must-accept / must-reject / may (implied exchange) / unspecified; observed via \
         report::process on the in-memory file system: accept vs reject, the transaction named by the diagnostic, stored posting \
         amounts. Non-trivial = the final transaction has a specified outcome; distinct by ledger text. A quarter of the cases are written through declared account / commodity aliases and one in six is cut at entry boundaries into a tree of included files on the in-memory file system (diagnostics must then name the posting's own file and line)."
            .to_string()
    }
    fn assumptions(&self) -> Vec<String> {
        vec![
            "reference model harness/src/model/book.rs is a correct reading of the C01 statement".into(),
            "transactions with an ill-formed posting (zero or negative price, price in the amount's commodity, non-zero bare number, price on a zero amount) are unspecified: only no-crash is checked".into(),
            "exactly two non-zero residual commodities of opposite sign may or may not be accepted (statement: 'only if')".into(),
            "|values| <= 10^9 with at most 6 decimals, so no product leaves the decimal range".into(),
        ]
    }
    fn min_nontrivial(&self, tier: Tier) -> u64 {
        tier.pick(50_000, 4_000_000)
    }
}
