//! Shared machinery of the import checks (C15-C18, and the import family of C13):
//! statement models that keep the ground truth they render into CSV / ISO Camt053 XML /
//! configuration YAML, and wrappers that run the real importer in-process and through
//! the binary.

use std::path::{Path, PathBuf};

use chrono::NaiveDate;
use okane::import::{self, config::ConfigEntry, Format};
use okane_core::syntax;

use crate::checks::c13::Job;
use crate::gen::ledger::Dec;
use crate::gen::syntax::dump_entry;
use crate::model::q::Q;
use crate::rng::Rng;

// ---------------------------------------------------------------------------------------
// running the importer

pub struct Imported {
    /// canonical dump of each transaction the importer built (to_double_entry)
    pub tree_dumps: Vec<String>,
    /// structured view of the tree
    pub txns: Vec<TreeTxn>,
    /// what `ImportCmd::run` wrote
    pub text: String,
}

#[derive(Clone, Debug, PartialEq)]
pub struct TreePosting {
    pub state: char,
    pub account: String,
    /// (value, commodity)
    pub amount: Option<(Q, String)>,
    /// cost: (is_total, value, commodity)
    pub cost: Option<(bool, Q, String)>,
    pub assertion: Option<(Q, String)>,
    pub payee_tag: Option<String>,
}

#[derive(Clone, Debug, PartialEq)]
pub struct TreeTxn {
    pub date: NaiveDate,
    pub effective_date: Option<NaiveDate>,
    pub state: char,
    pub code: Option<String>,
    pub payee: String,
    pub comments: Vec<String>,
    pub posts: Vec<TreePosting>,
}

fn state_char(s: syntax::ClearState) -> char {
    match s {
        syntax::ClearState::Uncleared => '.',
        syntax::ClearState::Cleared => '*',
        syntax::ClearState::Pending => '!',
    }
}

fn amount_of(v: &syntax::expr::ValueExpr) -> Option<(Q, String)> {
    match v {
        syntax::expr::ValueExpr::Amount(a) => Some((Q::from_decimal(a.value.value), a.commodity.to_string())),
        _ => None,
    }
}

pub fn tree_txn(t: &syntax::plain::Transaction) -> TreeTxn {
    TreeTxn {
        date: t.date,
        effective_date: t.effective_date,
        state: state_char(t.clear_state),
        code: t.code.as_ref().map(|c| c.to_string()),
        payee: t.payee.to_string(),
        comments: t
            .metadata
            .iter()
            .filter_map(|m| match m {
                syntax::Metadata::Comment(c) => Some(c.to_string()),
                _ => None,
            })
            .collect(),
        posts: t
            .posts
            .iter()
            .map(|p| TreePosting {
                state: state_char(p.clear_state),
                account: p.account.to_string(),
                amount: p.amount.as_ref().and_then(|a| amount_of(&a.amount)),
                cost: p.amount.as_ref().and_then(|a| a.cost.as_ref()).and_then(|c| match c {
                    syntax::Exchange::Rate(v) => amount_of(v).map(|(q, c)| (false, q, c)),
                    syntax::Exchange::Total(v) => amount_of(v).map(|(q, c)| (true, q, c)),
                }),
                assertion: p.balance.as_ref().and_then(amount_of),
                payee_tag: p.metadata.iter().find_map(|m| match m {
                    syntax::Metadata::KeyValueTag { key, value: syntax::MetadataValue::Text(t) } if key == "Payee" => Some(t.to_string()),
                    _ => None,
                }),
            })
            .collect(),
    }
}

pub fn format_of(path: &Path) -> Format {
    match path.extension().and_then(|e| e.to_str()) {
        Some("xml") => Format::IsoCamt053,
        Some("txt") => Format::Viseca,
        _ => Format::Csv,
    }
}

pub fn select_config(config_yaml: &str, source: &Path) -> Result<ConfigEntry, String> {
    let set = import::config::load_from_yaml(config_yaml.as_bytes()).map_err(|e| format!("config: {}", e))?;
    match set.select(source) {
        Ok(Some(c)) => Ok(c),
        Ok(None) => Err("no configuration matches the path".into()),
        Err(e) => Err(format!("config select: {}", e)),
    }
}

/// Runs the importer on files already written to disk: the tree (import + to_double_entry)
/// and the text `ImportCmd::run` prints.
pub fn run_import(config_path: &Path, config_yaml: &str, source: &Path, content: &str) -> Result<Imported, String> {
    let entry = select_config(config_yaml, source)?;
    let xacts = import::import(content.as_bytes(), format_of(source), &entry).map_err(|e| format!("import: {}", e))?;
    let mut tree_dumps = Vec::new();
    let mut txns = Vec::new();
    for x in &xacts {
        let t = x.to_double_entry(&entry.account).map_err(|e| format!("to_double_entry: {}", e))?;
        txns.push(tree_txn(&t));
        tree_dumps.push(dump_entry(&syntax::LedgerEntry::Txn(t)));
    }
    let mut out: Vec<u8> = Vec::new();
    okane::cmd::ImportCmd { config: config_path.to_path_buf(), source: source.to_path_buf() }.run(&mut out).map_err(|e| format!("ImportCmd::run: {}", e))?;
    let text = String::from_utf8(out).map_err(|e| e.to_string())?;
    Ok(Imported { tree_dumps, txns, text })
}

// ---------------------------------------------------------------------------------------
// number and cell rendering

pub fn q_text(q: Q) -> String {
    let (m, s) = q.as_decimal_parts(12).expect("finite decimal");
    Dec::new(m, s).text()
}

pub fn q_text_scale(q: Q, scale: u32) -> String {
    let (m, s) = q.as_decimal_parts(12).expect("finite decimal");
    let mut m = m;
    let mut s = s;
    while s < scale {
        m *= 10;
        s += 1;
    }
    Dec::new(m, s).text()
}

#[derive(Clone, Copy, Debug, PartialEq)]
pub enum NumStyle {
    Plain,
    Grouped,
    DollarPrefix,
    /// `$-1,234.50`: the sign follows the currency symbol (spreadsheet currency format)
    DollarThenMinus,
}

pub fn cell_number(q: Q, scale: u32, style: NumStyle) -> String {
    let (m, s) = q.as_decimal_parts(12).expect("finite decimal");
    let mut m = m;
    let mut s = s;
    while s < scale {
        m *= 10;
        s += 1;
    }
    let mut d = Dec::new(m.abs(), s);
    d.grouped = style != NumStyle::Plain;
    let body = d.text();
    let sign = if m < 0 { "-" } else { "" };
    match style {
        NumStyle::DollarPrefix => format!("{}${}", sign, body),
        NumStyle::DollarThenMinus => format!("${}{}", sign, body),
        _ => format!("{}{}", sign, body),
    }
}

/// Appends rewrite rules (YAML list items, two-space indented) to a configuration document whose
/// `rewrite:` key, if present, is its last key.
pub fn push_rules(yaml: &mut String, items: &str) {
    if !yaml.contains("\nrewrite:\n") {
        yaml.push_str("rewrite:\n");
    }
    yaml.push_str(items);
}

pub fn csv_cell(s: &str) -> String {
    format!("\"{}\"", s.replace('"', "\"\""))
}

pub fn yaml_str(s: &str) -> String {
    // double-quoted YAML scalar
    let mut out = String::from("\"");
    for c in s.chars() {
        match c {
            '"' => out.push_str("\\\""),
            '\\' => out.push_str("\\\\"),
            '\n' => out.push_str("\\n"),
            '\t' => out.push_str("\\t"),
            c => out.push(c),
        }
    }
    out.push('"');
    out
}

// ---------------------------------------------------------------------------------------
// CSV statements

#[derive(Clone, Debug, PartialEq)]
pub enum RateMode {
    PriceOfSecondary,
    PriceOfPrimary,
}

#[derive(Clone, Debug)]
pub struct Conv {
    /// magnitude of the amount in the secondary commodity as the statement shows it
    pub sec_amount: Q,
    pub sec_commodity: String,
    pub rate: Q,
    pub mode: RateMode,
    pub compute: bool,
}

#[derive(Clone, Debug)]
pub struct CsvRow {
    pub date: NaiveDate,
    pub payee: String,
    pub category: String,
    pub note: String,
    /// movement of the configured account (credit positive, debit negative)
    pub amount: Q,
    pub balance_after: Q,
    pub commodity: String,
    pub conv: Option<Conv>,
    pub charge: Option<Q>,
    /// the row's payee matches a rewrite rule carrying `conversion: {disabled: true}`: the conversion
    /// cells are filled in the file but no conversion applies
    pub conversion_disabled: bool,
}

#[derive(Clone, Debug)]
pub struct CsvLayout {
    pub by_label: bool,
    pub delimiter: char,
    pub skip_head: usize,
    pub date_fmt: &'static str,
    pub credit_debit: bool,
    pub liability: bool,
    pub new_to_old: bool,
    pub balance_col: bool,
    pub commodity_col: bool,
    pub conversion_cols: bool,
    pub charge_col: bool,
    pub note_col: bool,
    pub category_col: bool,
    pub payee_template: bool,
    pub num_style: NumStyle,
    pub scale: u32,
    pub rate_mode: RateMode,
    pub compute: bool,
    /// rows without a date (separators, sub-totals) are sprinkled between the records
    pub dateless_rows: bool,
    /// a rewrite rule with `conversion: {disabled: true}` for payees starting with NOCONV
    pub disable_rule: bool,
    /// the document-level conversion states the wrong rate side; two rewrite rules that match every
    /// foreign-currency row carry a conversion each, the first wrong again, the last the right one (rules apply in
    /// list order, a later matching rule's setting replaces an earlier one)
    pub override_rules: bool,
    pub blank_preamble_line: bool,
    /// the first column is a reference column whose cells read `#1001`, `#1002`, ... (unquoted)
    pub ref_first: bool,
    /// `conversion.commodity` overrides whatever the secondary-commodity cell says
    pub commodity_override: bool,
}

#[derive(Clone, Debug)]
pub struct Rule {
    pub yaml: String,
}

#[derive(Clone, Debug)]
pub struct CsvCase {
    pub layout: CsvLayout,
    pub rows: Vec<CsvRow>,
    pub opening: Q,
    pub account: String,
    pub primary: String,
    pub file_name: String,
    pub csv_text: String,
    pub config_yaml: String,
}

/// An account name of random display width (12-46 columns), so that printed postings land on
/// both sides of the alignment column.
pub fn random_account(rng: &mut Rng, root: &str) -> String {
    let words = ["Okane", "Bank", "Credit Cards", "Gold Visa", "Checking", "Zurich", "Savings 2021", "Joint", "X"];
    let target = 12 + rng.usize(35);
    let mut s = root.to_string();
    while s.len() < target {
        s.push(':');
        s.push_str(rng.pick_str(&words));
    }
    s.truncate(target.max(root.len() + 2));
    let s = s.trim_end_matches([':', ' ']).to_string();
    s
}

pub const BENIGN_PAYEES: &[&str] = &["Migros Zuerich", "Debit Card 31415 Coop", "SBB CFF FFS", "スーパー 西友", "ACME Corp.", "Salary October", "ATM 五反田", "Transfer 0042"];
pub const CATEGORIES: &[&str] = &["Groceries", "Travel", "Income", "Cash", "Misc"];

fn date_text(d: NaiveDate, fmt: &str) -> String {
    d.format(fmt).to_string()
}

impl CsvCase {
    pub fn generate(rng: &mut Rng, payees: &[&str], notes: &[&str]) -> CsvCase {
        let primary = rng.pick_str(&["CHF", "USD", "JPY", "EUR"]).to_string();
        let scale = if primary == "JPY" { 0 } else { 2 };
        let liability = rng.chance(1, 3);
        let credit_debit = rng.chance(1, 2);
        let conversion_cols = rng.chance(1, 3);
        let layout = CsvLayout {
            by_label: rng.chance(1, 2),
            delimiter: *rng.pick(&[',', ',', '\t', ';']),
            skip_head: rng.usize(3),
            date_fmt: *rng.pick(&["%Y-%m-%d", "%Y/%m/%d", "%d.%m.%Y", "%m/%d/%Y"]),
            credit_debit,
            liability,
            new_to_old: rng.chance(1, 2),
            balance_col: !liability && rng.chance(2, 3),
            commodity_col: rng.chance(1, 4),
            conversion_cols,
            charge_col: conversion_cols && rng.chance(1, 2),
            note_col: rng.chance(1, 2),
            category_col: rng.chance(1, 2),
            payee_template: false,
            num_style: *rng.pick(&[NumStyle::Plain, NumStyle::Plain, NumStyle::Grouped, NumStyle::DollarPrefix, NumStyle::DollarThenMinus]),
            scale,
            rate_mode: if rng.chance(1, 2) { RateMode::PriceOfSecondary } else { RateMode::PriceOfPrimary },
            compute: rng.chance(1, 3),
            dateless_rows: rng.chance(1, 4),
            disable_rule: conversion_cols && rng.chance(1, 3),
            ref_first: rng.chance(1, 6),
            override_rules: conversion_cols && rng.chance(1, 5),
            blank_preamble_line: rng.chance(1, 2),
            commodity_override: conversion_cols && rng.chance(1, 3),
        };
        let mut layout = layout;
        layout.payee_template = layout.category_col && layout.note_col && rng.chance(1, 4);
        let n = 1 + rng.usize(8);
        let unit = Q::from_parts(1, scale).unwrap();
        let opening = Q::int(rng.range(0, 5000) as i128);
        let mut bal = opening;
        let mut rows = Vec::new();
        // dates: non-decreasing, often several rows on one day
        let mut day = NaiveDate::from_ymd_opt(2021, 9, 1).unwrap();
        for _ in 0..n {
            if rng.chance(3, 5) {
                day += chrono::Duration::days(rng.range(1, 9));
            }
            // with a running-balance column the sequence of the statement is what counts: now and
            // then a row booked late carries an earlier date than the row before it
            let row_day = if layout.balance_col && rng.chance(1, 10) { day - chrono::Duration::days(rng.range(1, 6)) } else { day };
            // (one record in thirty moves nothing: a zero amount is an amount)
            let zero_row = rng.chance(1, 30);
            let mag = if zero_row { Q::ZERO } else { Q::int(rng.range(1, 300000) as i128).mul(unit).unwrap() };
            let mut amount = if rng.chance(2, 5) { mag } else { mag.neg() };
            let mut conv = None;
            let mut charge = None;
            if layout.conversion_cols && !zero_row && rng.chance(1, 2) {
                // (one secondary commodity per file; now and then a name with non-ASCII digits)
                let pool: Vec<&str> = ["EUR", "USD", "GBP", "７２０３", "m²"].into_iter().filter(|c| *c != primary).collect();
                let sec_commodity = pool[(opening.n.unsigned_abs() % pool.len() as u128) as usize].to_string();
                let (rm, rs) = *rng.pick(&[(12i128, 1u32), (2, 0), (5, 1), (125, 2), (8, 1), (110, 0), (1092432, 6)]);
                let rate = Q::from_parts(rm, rs).unwrap();
                let sec = Q::int(rng.range(1, 5000) as i128).mul(Q::from_parts(1, 2).unwrap()).unwrap();
                // amount consistent with the secondary amount and the rate (plus charge)
                let sign = if amount.signum() < 0 { Q::int(-1) } else { Q::ONE };
                let base = match layout.rate_mode {
                    RateMode::PriceOfSecondary => sec.mul(rate).unwrap(), // 1 SEC = rate PRIMARY
                    RateMode::PriceOfPrimary => sec.div(rate).unwrap(),   // 1 PRIMARY = rate SEC
                };
                if layout.compute && rng.chance(1, 2) {
                    // computed conversions ignore the secondary amount column: the statement's own amount
                    // need not be an exact multiple, so the computed amount has as many digits as fit
                    conv = Some(Conv { sec_amount: sec, sec_commodity, rate, mode: layout.rate_mode.clone(), compute: true });
                } else if base.as_decimal_parts(10).is_some() {
                    let mut a = base;
                    if layout.charge_col && layout.rate_mode == RateMode::PriceOfSecondary && !layout.compute && rng.chance(1, 2) {
                        let ch = Q::int(rng.range(1, 500) as i128).mul(unit).unwrap();
                        charge = Some(ch);
                        // debit: |a| = sec*rate + charge ; credit: a = sec*rate - charge
                        a = if sign.signum() < 0 { a.add(ch).unwrap() } else { a.sub(ch).unwrap() };
                    }
                    if a.signum() > 0 {
                        amount = a.mul(sign).unwrap();
                        conv = Some(Conv { sec_amount: sec, sec_commodity, rate, mode: layout.rate_mode.clone(), compute: layout.compute });
                    } else {
                        charge = None;
                    }
                }
            }
            bal = bal.add(amount).unwrap();
            let conversion_disabled = layout.disable_rule && !layout.payee_template && conv.is_some() && charge.is_none() && rng.chance(1, 2);
            rows.push(CsvRow {
                conversion_disabled,
                date: row_day,
                payee: if conversion_disabled { format!("NOCONV {}", rng.pick(payees)) } else { rng.pick(payees).to_string() },
                category: rng.pick_str(CATEGORIES).to_string(),
                note: if rng.chance(1, 2) { rng.pick(notes).to_string() } else { String::new() },
                amount,
                balance_after: bal,
                commodity: primary.clone(),
                conv,
                charge,
            });
        }
        let account = random_account(rng, if liability { "Liabilities" } else { "Assets" });
        let file_name = format!("stmt{}.csv", rng.below(1000));
        let mut case = CsvCase { layout, rows, opening, account, primary, file_name, csv_text: String::new(), config_yaml: String::new() };
        case.render(rng);
        case
    }

    /// Column names in file order.
    fn columns(&self) -> Vec<(&'static str, String)> {
        // (field key, label)
        let l = &self.layout;
        let mut cols: Vec<(&'static str, String)> = vec![("date", "Date".into()), ("_ignored", "Product".into()), ("payee", "摘要 Payee".into())];
        if l.ref_first {
            cols.insert(0, ("_ref", "Ref".into()));
        }
        if l.category_col {
            cols.push(("category", "Category".into()));
        }
        if l.credit_debit {
            cols.push(("credit", "Credit".into()));
            cols.push(("debit", "Debit".into()));
        } else {
            cols.push(("amount", "Amount".into()));
        }
        if l.commodity_col {
            cols.push(("commodity", "Ccy".into()));
        }
        if l.balance_col {
            cols.push(("balance", "Balance".into()));
        }
        if l.conversion_cols {
            cols.push(("rate", "Rate".into()));
            cols.push(("secondary_amount", "Foreign Amount".into()));
            cols.push(("secondary_commodity", "Foreign Ccy".into()));
        }
        if l.charge_col {
            cols.push(("charge", "Fees & Comm".into()));
        }
        if l.note_col {
            cols.push(("note", "Note".into()));
        }
        cols
    }

    pub fn render(&mut self, rng: &mut Rng) {
        let l = self.layout.clone();
        let cols = self.columns();
        let d = l.delimiter.to_string();
        let mut text = String::new();
        for k in 0..l.skip_head {
            // skipped head lines are physical lines: an empty one counts like any other
            if l.blank_preamble_line && k + 1 == l.skip_head {
                text.push('\n');
            } else {
                text.push_str(&format!("Account statement preamble line {}\n", k + 1));
            }
        }
        text.push_str(&cols.iter().map(|(_, label)| csv_cell(label)).collect::<Vec<_>>().join(&d));
        text.push('\n');
        let mut rows: Vec<&CsvRow> = self.rows.iter().collect();
        if l.new_to_old {
            rows.reverse();
        }
        for r in rows {
            if l.dateless_rows && rng.chance(1, 3) {
                // a separator / sub-total line: no date, some text, enough columns
                let cells: Vec<String> = cols.iter().map(|(key, _)| csv_cell(if *key == "payee" { "*** sub total ***" } else { "" })).collect();
                text.push_str(&cells.join(&d));
                text.push('\n');
            }
            let mut cells: Vec<String> = Vec::new();
            for (key, _) in &cols {
                let v = match *key {
                    "date" => date_text(r.date, l.date_fmt),
                    "_ignored" => "普通".to_string(),
                    "_ref" => format!("#{}", 1000 + (r.balance_after.n.unsigned_abs() % 9000)),
                    "payee" => r.payee.clone(),
                    "category" => r.category.clone(),
                    "amount" => {
                        let shown = if l.liability { r.amount.neg() } else { r.amount };
                        cell_number(shown, l.scale, l.num_style)
                    }
                    "credit" => {
                        if r.amount.signum() > 0 || (r.amount.is_zero() && r.balance_after.n % 2 == 0) {
                            cell_number(r.amount, l.scale, l.num_style)
                        } else {
                            String::new()
                        }
                    }
                    "debit" => {
                        if r.amount.signum() < 0 || (r.amount.is_zero() && r.balance_after.n % 2 != 0) {
                            cell_number(r.amount.neg(), l.scale, l.num_style)
                        } else {
                            String::new()
                        }
                    }
                    "commodity" => r.commodity.clone(),
                    "balance" => cell_number(r.balance_after, l.scale, if l.num_style == NumStyle::DollarPrefix { NumStyle::Grouped } else { l.num_style }),
                    "rate" => r.conv.as_ref().map(|c| q_text(c.rate)).unwrap_or_default(),
                    "secondary_amount" => r.conv.as_ref().map(|c| cell_number(c.sec_amount, 2, NumStyle::Plain)).unwrap_or_default(),
                    "secondary_commodity" => r.conv.as_ref().map(|c| if l.commodity_override { format!("{}.RAW", c.sec_commodity) } else { c.sec_commodity.clone() }).unwrap_or_default(),
                    "charge" => r.charge.map(|c| cell_number(c, l.scale, NumStyle::Plain)).unwrap_or_default(),
                    "note" => r.note.clone(),
                    _ => String::new(),
                };
                // (the reference cell is written bare: `#1002` is data, not a comment)
                cells.push(if *key == "_ref" { v } else { csv_cell(&v) });
            }
            text.push_str(&cells.join(&d));
            text.push('\n');
        }
        // some exports end with an empty record
        if rng.chance(1, 5) {
            text.push_str(&vec![String::new(); cols.len()].join(&d));
            text.push('\n');
        }
        self.csv_text = text;
        // configuration
        let mut y = String::new();
        y.push_str(&format!("path: {}\nencoding: UTF-8\naccount: {}\naccount_type: {}\n", yaml_str(&self.file_name), yaml_str(&self.account), if l.liability { "liability" } else { "asset" }));
        let right_rate = if l.rate_mode == RateMode::PriceOfSecondary { "price_of_secondary" } else { "price_of_primary" };
        let wrong_rate = if l.rate_mode == RateMode::PriceOfSecondary { "price_of_primary" } else { "price_of_secondary" };
        // all foreign rows of one file share one secondary commodity
        let override_commodity = if l.commodity_override { self.rows.iter().find_map(|r| r.conv.as_ref().map(|c| c.sec_commodity.clone())) } else { None };
        if l.conversion_cols {
            y.push_str(&format!(
                "commodity:\n  primary: {}\n  conversion:\n    amount: {}\n    rate: {}\n",
                self.primary,
                if l.compute { "compute" } else { "extract" },
                if l.override_rules { wrong_rate } else { right_rate }
            ));
            if let Some(c) = &override_commodity {
                y.push_str(&format!("    commodity: {}\n", c));
            }
        } else {
            y.push_str(&format!("commodity: {}\n", self.primary));
        }
        if l.charge_col {
            y.push_str("operator: Okane Bank (commission)\n");
        }
        y.push_str(&format!("format:\n  date: {}\n", yaml_str(l.date_fmt)));
        if l.delimiter != ',' {
            y.push_str(&format!("  delimiter: {}\n", yaml_str(&d)));
        }
        if l.skip_head > 0 {
            y.push_str(&format!("  skip:\n    head: {}\n", l.skip_head));
        }
        if l.new_to_old {
            y.push_str("  row_order: new_to_old\n");
        }
        y.push_str("  fields:\n");
        for (i, (key, label)) in cols.iter().enumerate() {
            if *key == "_ignored" || *key == "_ref" {
                continue;
            }
            if *key == "payee" && l.payee_template {
                y.push_str("    payee:\n      template: \"{category} - {note}\"\n");
                continue;
            }
            if l.by_label {
                y.push_str(&format!("    {}: {}\n", key, yaml_str(label)));
            } else {
                y.push_str(&format!("    {}: {}\n", key, i + 1));
            }
        }
        if l.override_rules {
            let mut rules = String::new();
            for rate in [wrong_rate, right_rate] {
                rules.push_str(&format!("  - matcher:\n      secondary_commodity: \".\"\n    conversion:\n      amount: {}\n      rate: {}\n", if l.compute { "compute" } else { "extract" }, rate));
                if let Some(c) = &override_commodity {
                    rules.push_str(&format!("      commodity: {}\n", c));
                }
            }
            push_rules(&mut y, &rules);
        }
        if l.disable_rule {
            push_rules(&mut y, "  - matcher:\n      payee: \"^NOCONV\"\n    conversion:\n      disabled: true\n");
        }
        self.config_yaml = y;
    }

    /// The payee the importer starts from for a row.
    pub fn original_payee(&self, r: &CsvRow) -> String {
        if self.layout.payee_template {
            format!("{} - {}", r.category, r.note)
        } else {
            r.payee.clone()
        }
    }

    pub fn write(&self, dir: &Path) -> std::io::Result<(PathBuf, PathBuf)> {
        std::fs::create_dir_all(dir)?;
        let cfg = dir.join("config.yml");
        let src = dir.join(&self.file_name);
        std::fs::write(&cfg, &self.config_yaml)?;
        std::fs::write(&src, &self.csv_text)?;
        Ok((cfg, src))
    }
}

// ---------------------------------------------------------------------------------------
// determinism jobs for C13 (import with rules that have several matchers)

pub fn determinism_jobs(rng: &mut Rng, dir: &Path) -> Option<(Vec<Job>, String)> {
    let mut case = CsvCase::generate(rng, BENIGN_PAYEES, &["note a", "note b"]);
    for _ in 0..20 {
        if case.layout.category_col && !case.layout.payee_template {
            break;
        }
        case = CsvCase::generate(rng, BENIGN_PAYEES, &["note a", "note b"]);
    }
    if !case.layout.category_col {
        return None;
    }
    // rules whose AND-maps have several matchers, each with named groups: the outcome must not
    // depend on the order in which the matchers of one map are evaluated
    push_rules(
        &mut case.config_yaml,
        "  - matcher:\n      payee: \"(?P<payee>[A-Za-z]+) .*\"\n      category: \"(?P<payee>[A-Z][a-z]+)\"\n    account: Expenses:Matched\n  - matcher:\n      - payee: \"(?P<code>SBB)\"\n        category: \"(?P<code>Tr)avel\"\n      - category: \"Income\"\n    account: Income:Salary\n    pending: true\n",
    );
    let (cfg, src) = case.write(dir).ok()?;
    let mut jobs = vec![Job { family: "import-csv-multi-matcher-rules", argv: vec!["import".into(), "--config".into(), cfg.to_string_lossy().into_owned(), src.to_string_lossy().into_owned()] }];
    let mut desc = format!("=== config\n{}=== csv\n{}", case.config_yaml, case.csv_text);
    // the same for ISO Camt053, where every regex matcher of an AND-map can capture
    let mut camt = CamtCase::generate(rng, PARTY_NAMES);
    for e in camt.entries.iter_mut() {
        for d in e.details.iter_mut() {
            d.creditor = Some(rng.pick_str(PARTY_NAMES).to_string());
            d.debtor = Some(rng.pick_str(PARTY_NAMES).to_string());
            d.remittance = Some(format!("ref {} {}", rng.below(1000), rng.pick_str(PARTY_NAMES)));
            d.additional_info = Some(format!("info {}", rng.pick_str(PARTY_NAMES)));
        }
    }
    camt.render();
    camt.config_yaml.push_str(
        "rewrite:\n  - matcher:\n      creditor_name: \"(?P<payee>.+)\"\n      debtor_name: \"(?P<payee>.+)\"\n      remittance_unstructured_info: \"ref (?P<code>\\\\d+) (?P<payee>.+)\"\n      additional_transaction_info: \"info (?P<payee>.+)\"\n    account: Expenses:Matched\n",
    );
    let cdir = dir.join("camt");
    if let Ok((ccfg, csrc)) = camt.write(&cdir) {
        jobs.push(Job { family: "import-camt-multi-capture-rule", argv: vec!["import".into(), "--config".into(), ccfg.to_string_lossy().into_owned(), csrc.to_string_lossy().into_owned()] });
        desc.push_str(&format!("=== camt config\n{}=== camt xml\n{}", camt.config_yaml, camt.xml));
    }
    // configurations with several defects at once: which one is reported (and how the message
    // lists them) must not depend on the order in which a map of fields is visited
    let csv = "Date,Payee,Category,Note,Amount,Balance\n2021-09-01,Migros,Food,weekly,-10.00,90.00\n2021-09-02,SBB,Travel,ticket,-5.50,84.50\n";
    let head = "encoding: UTF-8\naccount: Assets:Bank\naccount_type: asset\ncommodity: CHF\nformat:\n  date: \"%Y-%m-%d\"\n  fields:\n";
    let mut missing: Vec<&str> = vec!["Booking date", "Description", "Details", "Saldo", "Betrag", "Kategorie"];
    rng.shuffle(&mut missing);
    let keys = ["date", "payee", "category", "note", "amount", "balance"];
    let n_missing = 2 + rng.usize(4);
    let mut fields_missing = String::new();
    for (i, k) in keys.iter().enumerate() {
        let label = if i < n_missing { missing[i] } else { ["Date", "Payee", "Category", "Note", "Amount", "Balance"][i] };
        fields_missing.push_str(&format!("    {}: {}\n", k, yaml_str(label)));
    }
    let mut bad_templates: Vec<&str> = vec!["{nope} x", "{bad} y", "{0}", "{category", "{ } z", "{payee.x}"];
    rng.shuffle(&mut bad_templates);
    let fields_templates = format!(
        "    date: 1\n    amount: 5\n    payee:\n      template: {}\n    category:\n      template: {}\n    note:\n      template: {}\n",
        yaml_str(bad_templates[0]),
        yaml_str(bad_templates[1]),
        yaml_str(bad_templates[2])
    );
    let fields_ok = "    date: 1\n    payee: 2\n    category: 3\n    note: 4\n    amount: 5\n    balance: 6\n";
    // every field of the map is defective in its own way (three invalid patterns, or an invalid
    // pattern next to a field the CSV importer does not support)
    let bad_rules = if rng.chance(1, 2) {
        "rewrite:\n  - matcher:\n      payee: \"(unclosed\"\n      category: \"[a-\"\n      secondary_commodity: \"*x\"\n    account: Expenses:X\n"
    } else {
        "rewrite:\n  - matcher:\n      payee: \"Card (?P<code>\\\\d+\"\n      creditor_name: \"Coop\"\n      category: \"[Food\"\n    account: Expenses:X\n"
    };
    for (family, name, cfg_text) in [
        ("import-csv-several-missing-labels", "defect1", format!("path: defect1.csv\n{}{}", head, fields_missing)),
        ("import-csv-several-invalid-templates", "defect2", format!("path: defect2.csv\n{}{}", head, fields_templates)),
        ("import-csv-several-invalid-rule-patterns", "defect3", format!("path: defect3.csv\n{}{}{}", head, fields_ok, bad_rules)),
    ] {
        let ddir = dir.join(name);
        if std::fs::create_dir_all(&ddir).is_err() {
            continue;
        }
        let cfg = ddir.join("config.yml");
        let src = ddir.join(format!("{}.csv", name));
        if std::fs::write(&cfg, &cfg_text).is_ok() && std::fs::write(&src, csv).is_ok() {
            jobs.push(Job { family, argv: vec!["import".into(), "--config".into(), cfg.to_string_lossy().into_owned(), src.to_string_lossy().into_owned()] });
            desc.push_str(&format!("=== {} config\n{}", name, cfg_text));
        }
    }
    Some((jobs, desc))
}

// ---------------------------------------------------------------------------------------
// ISO Camt053 statements

pub fn xml_escape(s: &str) -> String {
    s.replace('&', "&amp;").replace('<', "&lt;").replace('>', "&gt;")
}

#[derive(Clone, Debug)]
pub struct CamtDetail {
    pub amount: Q,
    pub credit: bool,
    pub reference: Option<String>,
    pub creditor: Option<String>,
    pub debtor: Option<String>,
    pub ultimate_debtor: Option<String>,
    pub remittance: Option<String>,
    pub additional_info: Option<String>,
    /// charge included in the amount: TxAmt = amount -/+ charge
    pub charge: Option<Q>,
    /// the charge record is a credit (a fee rebate netted into the amount) instead of a debit
    pub charge_is_credit: bool,
    /// how the charge is written: 1 = one record, 2 = two equal records, 3 = two unequal records,
    /// 4 = one record next to a zero-amount record
    pub charge_records: u8,
    /// a detail without charge may still carry a `<Chrgs>` element whose records are all 0.00
    pub zero_charge_records: u8,
}

#[derive(Clone, Debug)]
pub struct CamtEntry {
    pub amount: Q,
    pub credit: bool,
    pub booking: NaiveDate,
    pub value: Option<NaiveDate>,
    /// `Some(time+offset)`: the date is written as `<DtTm>DATE'T'time+offset</DtTm>` instead of `<Dt>`
    pub value_time: Option<&'static str>,
    pub booking_time: Option<&'static str>,
    pub domain: (&'static str, &'static str, &'static str),
    pub additional_info: String,
    pub details: Vec<CamtDetail>,
}

impl CamtEntry {
    pub fn signed(&self) -> Q {
        if self.credit {
            self.amount
        } else {
            self.amount.neg()
        }
    }
}

impl CamtDetail {
    pub fn signed(&self) -> Q {
        if self.credit {
            self.amount
        } else {
            self.amount.neg()
        }
    }
}

#[derive(Clone, Debug)]
pub struct CamtCase {
    pub currency: String,
    pub opening: Q,
    pub closing: Q,
    /// in file order
    pub entries: Vec<CamtEntry>,
    pub new_to_old: bool,
    /// 0: OPBD then CLBD; 1: CLBD then OPBD
    pub balance_layout: u8,
    pub account: String,
    pub file_name: String,
    pub xml: String,
    pub config_yaml: String,
}

pub const PARTY_NAMES: &[&str] = &["Money Bank", "Herr Haus Okane und Frau Hause Okane", "OKANE VERSICHERUNGEN", "EURO GROCERY", "山田商店", "Taro Yamada", "Hanako Steinmann"];
const DOMAINS: &[(&str, &str, &str)] = &[("PMNT", "RCDT", "OTHR"), ("PMNT", "ICDT", "AUTT"), ("PMNT", "RCDT", "SALA"), ("PMNT", "RDDT", "PMDD"), ("PMNT", "ICDT", "STDO"), ("PMNT", "RCDT", "DAJT")];

/// Local times with UTC offsets, several of them on another calendar day in UTC: the date of a
/// `<DtTm>` is the calendar day it states.
const DATE_TIMES: &[&str] = &["10:30:00+02:00", "00:30:00+02:00", "23:45:00-05:00", "12:00:00Z", "00:00:00+01:00", "23:59:59-11:00", "00:10:00+13:00", "01:15:00.000+02:00"];

fn money(q: Q) -> String {
    q_text(q)
}

impl CamtCase {
    pub fn generate(rng: &mut Rng, texts: &[&str]) -> CamtCase {
        let currency = rng.pick_str(&["CHF", "EUR", "USD"]).to_string();
        let cent = Q::from_parts(1, 2).unwrap();
        // (one statement in eight opens at exactly zero: the opening-balance transaction is still there)
        let opening = if rng.chance(1, 8) { Q::ZERO } else { Q::int(rng.range(0, 900000) as i128).mul(cent).unwrap() };
        let n = 1 + rng.usize(8);
        let mut day = NaiveDate::from_ymd_opt(2021, 10, 1).unwrap();
        let mut entries = Vec::new();
        let mut bal = opening;
        for k in 0..n {
            day += chrono::Duration::days(rng.range(0, 4));
            let value = match rng.below(4) {
                0 => None,
                1 => Some(day),
                _ => Some(day + chrono::Duration::days(rng.range(-2, 3))),
            };
            let n_details = match rng.below(6) {
                0 | 1 => 0,
                2 | 3 => 1,
                _ => 2 + rng.usize(3),
            };
            let credit = rng.chance(2, 5);
            let mut details = Vec::new();
            let mut total = Q::ZERO;
            for j in 0..n_details {
                let amt = Q::int(rng.range(1, 200000) as i128).mul(cent).unwrap();
                // a batched entry may mix credits and debits as long as the signed sum is the entry
                let dcredit = if n_details > 1 && rng.chance(1, 5) { !credit } else { credit };
                let charge = if rng.chance(1, 6) { Some(Q::int(rng.range(1, 500) as i128).mul(cent).unwrap()) } else { None };
                let charge_is_credit = charge.is_some() && rng.chance(1, 4);
                // an included charge must leave a positive transaction amount
                let shrinks = dcredit == charge_is_credit; // debit charge on a debit detail, or rebate on a credit detail
                let charge = charge.filter(|c| !shrinks || amt.sub(*c).map(|x| x.signum() > 0).unwrap_or(false));
                details.push(CamtDetail {
                    amount: amt,
                    credit: dcredit,
                    reference: match rng.below(10) {
                        0 => None,
                        1 => Some(String::new()), // present but empty: the code is `()`
                        _ => Some(format!("2021103{}/{}/{}", k % 10, k + 1, j + 1)),
                    },
                    creditor: if rng.chance(1, 2) { Some(rng.pick(texts).to_string()) } else { None },
                    debtor: if rng.chance(1, 2) { Some(rng.pick(texts).to_string()) } else { None },
                    ultimate_debtor: if rng.chance(1, 5) { Some(rng.pick(texts).to_string()) } else { None },
                    remittance: if rng.chance(1, 3) { Some(rng.pick(texts).to_string()) } else { None },
                    additional_info: if rng.chance(1, 2) { Some(rng.pick(texts).to_string()) } else { None },
                    charge,
                    charge_is_credit,
                    charge_records: *rng.pick(&[1u8, 1, 1, 2, 3, 4]),
                    zero_charge_records: if charge.is_none() && rng.chance(1, 8) { 1 + rng.below(2) as u8 } else { 0 },
                });
                let d = details.last().unwrap();
                total = total.add(d.signed()).unwrap();
            }
            let (amount, credit) = if n_details == 0 {
                // (one plain entry in twenty-five books nothing: still an entry, still a transaction)
                (if rng.chance(1, 25) { Q::ZERO } else { Q::int(rng.range(1, 300000) as i128).mul(cent).unwrap() }, credit)
            } else if total.is_zero() {
                // keep the entry non-zero: drop the mixing
                for d in details.iter_mut() {
                    d.credit = credit;
                }
                let t = details.iter().fold(Q::ZERO, |a, d| a.add(d.amount).unwrap());
                (t, credit)
            } else {
                (total.abs(), total.signum() > 0)
            };
            let e = CamtEntry { amount, credit, booking: day, value, value_time: if rng.chance(1, 4) { Some(*rng.pick(DATE_TIMES)) } else { None }, booking_time: if rng.chance(1, 6) { Some(*rng.pick(DATE_TIMES)) } else { None }, domain: *rng.pick(DOMAINS), additional_info: rng.pick(texts).to_string(), details };
            bal = bal.add(e.signed()).unwrap();
            entries.push(e);
        }
        let new_to_old = rng.chance(1, 2);
        if new_to_old {
            entries.reverse();
        }
        let mut case = CamtCase { currency, opening, closing: bal, entries, new_to_old, balance_layout: *rng.pick(&[0u8, 0, 1]), account: { let kind = if rng.chance(1, 4) { "Liabilities" } else { "Assets" }; random_account(rng, kind) }, file_name: format!("camt{}.xml", rng.below(1000)), xml: String::new(), config_yaml: String::new() };
        case.render();
        case
    }

    pub fn render(&mut self) {
        let c = &self.currency;
        let mut x = String::from("<?xml version=\"1.0\" encoding=\"UTF-8\"?>\n<Document xmlns=\"urn:iso:std:iso:20022:tech:xsd:camt.053.001.04\">\n  <BkToCstmrStmt>\n    <GrpHdr><MsgId>1</MsgId><CreDtTm>2021-10-31T00:00:00</CreDtTm></GrpHdr>\n    <Stmt>\n      <Id>1</Id>\n");
        let bal = |code: &str, v: Q| {
            format!(
                "      <Bal><Tp><CdOrPrtry><Cd>{}</Cd></CdOrPrtry></Tp><Amt Ccy=\"{}\">{}</Amt><CdtDbtInd>{}</CdtDbtInd><Dt><Dt>2021-10-01</Dt></Dt></Bal>\n",
                code,
                c,
                money(v.abs()),
                if v.signum() < 0 { "DBIT" } else { "CRDT" }
            )
        };
        // (okane's reader knows the balance codes OPBD and CLBD only: other ISO codes make it reject the
        // file, which is a limitation outside the statement and is not exercised)
        let order: Vec<(&str, Q)> = match self.balance_layout {
            0 => vec![("OPBD", self.opening), ("CLBD", self.closing)],
            _ => vec![("CLBD", self.closing), ("OPBD", self.opening)],
        };
        for (code, v) in order {
            x.push_str(&bal(code, v));
        }
        for e in &self.entries {
            x.push_str("      <Ntry>\n");
            // a reversal indicator does not change the direction: CdtDbtInd already states it
            let rvsl = match (e.amount.n + chrono::Datelike::ordinal(&e.booking) as i128) % 5 {
                0 => "        <RvslInd>true</RvslInd>\n",
                1 => "        <RvslInd>false</RvslInd>\n",
                _ => "",
            };
            x.push_str(&format!("        <Amt Ccy=\"{}\">{}</Amt>\n        <CdtDbtInd>{}</CdtDbtInd>\n{}        <Sts>BOOK</Sts>\n", c, money(e.amount), if e.credit { "CRDT" } else { "DBIT" }, rvsl));
            let date = |d: NaiveDate, time: Option<&str>| match time {
                Some(t) => format!("<DtTm>{}T{}</DtTm>", d, t),
                None => format!("<Dt>{}</Dt>", d),
            };
            x.push_str(&format!("        <BookgDt>{}</BookgDt>\n", date(e.booking, e.booking_time)));
            if let Some(v) = e.value {
                x.push_str(&format!("        <ValDt>{}</ValDt>\n", date(v, e.value_time)));
            }
            x.push_str(&format!("        <BkTxCd><Domn><Cd>{}</Cd><Fmly><Cd>{}</Cd><SubFmlyCd>{}</SubFmlyCd></Fmly></Domn></BkTxCd>\n", e.domain.0, e.domain.1, e.domain.2));
            if !e.details.is_empty() {
                // the batch header is optional: its absence says nothing about the number of details
                if (e.amount.n + e.details.len() as i128) % 4 == 0 {
                    x.push_str("        <NtryDtls>\n");
                } else {
                    x.push_str(&format!("        <NtryDtls>\n          <Btch><NbOfTxs>{}</NbOfTxs></Btch>\n", e.details.len()));
                }
                for d in &e.details {
                    x.push_str("          <TxDtls>\n            <Refs>");
                    if let Some(r) = &d.reference {
                        x.push_str(&format!("<AcctSvcrRef>{}</AcctSvcrRef>", xml_escape(r)));
                    }
                    x.push_str("<EndToEndId>NOTPROVIDED</EndToEndId></Refs>\n");
                    x.push_str(&format!("            <Amt Ccy=\"{}\">{}</Amt>\n            <CdtDbtInd>{}</CdtDbtInd>\n", c, money(d.amount), if d.credit { "CRDT" } else { "DBIT" }));
                    // amount before charges: a debit charge was taken out of a credit / added to a debit;
                    // a credited charge (rebate) the other way round
                    let tx_amt = match d.charge {
                        None => d.amount,
                        Some(ch) => {
                            if d.credit != d.charge_is_credit {
                                d.amount.add(ch).unwrap()
                            } else {
                                d.amount.sub(ch).unwrap()
                            }
                        }
                    };
                    x.push_str(&format!("            <AmtDtls><InstdAmt><Amt Ccy=\"{}\">{}</Amt></InstdAmt><TxAmt><Amt Ccy=\"{}\">{}</Amt></TxAmt></AmtDtls>\n", c, money(tx_amt), c, money(tx_amt)));
                    if let Some(ch) = d.charge {
                        let cent = Q::from_parts(1, 2).unwrap();
                        let half = ch.div(Q::int(2)).unwrap();
                        let even = half.mul(Q::int(100)).unwrap().d == 1;
                        let parts: Vec<Q> = match d.charge_records {
                            2 if even => vec![half, half],
                            3 if ch.sub(cent).unwrap().signum() > 0 => vec![ch.sub(cent).unwrap(), cent],
                            4 => vec![ch, Q::ZERO],
                            _ => vec![ch],
                        };
                        x.push_str("            <Chrgs>");
                        for part in parts {
                            x.push_str(&format!("<Rcrd><Amt Ccy=\"{}\">{}</Amt><CdtDbtInd>{}</CdtDbtInd><ChrgInclInd>true</ChrgInclInd></Rcrd>", c, money(part), if d.charge_is_credit { "CRDT" } else { "DBIT" }));
                        }
                        x.push_str("</Chrgs>\n");
                    } else if d.zero_charge_records > 0 {
                        x.push_str("            <Chrgs>");
                        for _ in 0..d.zero_charge_records {
                            x.push_str(&format!("<Rcrd><Amt Ccy=\"{}\">0.00</Amt><CdtDbtInd>DBIT</CdtDbtInd><ChrgInclInd>true</ChrgInclInd></Rcrd>", c));
                        }
                        x.push_str("</Chrgs>\n");
                    }
                    if d.creditor.is_some() || d.debtor.is_some() || d.ultimate_debtor.is_some() {
                        x.push_str("            <RltdPties>");
                        if let Some(n) = &d.debtor {
                            x.push_str(&format!("<Dbtr><Nm>{}</Nm></Dbtr>", xml_escape(n)));
                        }
                        if let Some(n) = &d.creditor {
                            x.push_str(&format!("<Cdtr><Nm>{}</Nm></Cdtr>", xml_escape(n)));
                        }
                        if let Some(n) = &d.ultimate_debtor {
                            x.push_str(&format!("<UltmtDbtr><Nm>{}</Nm></UltmtDbtr>", xml_escape(n)));
                        }
                        x.push_str("</RltdPties>\n");
                    }
                    if let Some(r) = &d.remittance {
                        x.push_str(&format!("            <RmtInf><Ustrd>{}</Ustrd></RmtInf>\n", xml_escape(r)));
                    }
                    if let Some(a) = &d.additional_info {
                        x.push_str(&format!("            <AddtlTxInf>{}</AddtlTxInf>\n", xml_escape(a)));
                    }
                    x.push_str("          </TxDtls>\n");
                }
                x.push_str("        </NtryDtls>\n");
            }
            x.push_str(&format!("        <AddtlNtryInf>{}</AddtlNtryInf>\n      </Ntry>\n", xml_escape(&e.additional_info)));
        }
        x.push_str("    </Stmt>\n  </BkToCstmrStmt>\n</Document>\n");
        self.xml = x;
        // the operator (payee of charge postings) is optional; it is left out of some configurations
        // of statements that carry no charge other than 0.00 records
        let charged = self.entries.iter().any(|e| e.details.iter().any(|d| d.charge.is_some()));
        let operator = if !charged && self.file_name.bytes().map(|b| b as usize).sum::<usize>() % 2 == 0 { "" } else { "operator: Okane Bank (fee)\n" };
        // credit / debit in a camt.053 statement are relative to the account whatever its type
        let account_type = if self.account.starts_with("Liabilities") { "liability" } else { "asset" };
        let mut y = format!("path: {}\nencoding: UTF-8\naccount: {}\naccount_type: {}\n{}commodity: {}\nformat:\n", yaml_str(&self.file_name), yaml_str(&self.account), account_type, operator, self.currency);
        if self.new_to_old {
            y.push_str("  row_order: new_to_old\n");
        }
        y.push_str(&format!("  commodity:\n    {}:\n      precision: 2\n", self.currency));
        self.config_yaml = y;
    }

    pub fn write(&self, dir: &Path) -> std::io::Result<(PathBuf, PathBuf)> {
        std::fs::create_dir_all(dir)?;
        let cfg = dir.join("config.yml");
        let src = dir.join(&self.file_name);
        std::fs::write(&cfg, &self.config_yaml)?;
        std::fs::write(&src, &self.xml)?;
        Ok((cfg, src))
    }

    /// Entries in chronological (processing) order.
    pub fn processing_order(&self) -> Vec<&CamtEntry> {
        if self.new_to_old {
            self.entries.iter().rev().collect()
        } else {
            self.entries.iter().collect()
        }
    }
}

// ---------------------------------------------------------------------------------------
// Viseca card statements (text extracted from PDF)

#[derive(Clone, Debug)]
pub struct VisecaCase {
    pub account: String,
    pub file_name: String,
    pub text: String,
    pub config_yaml: String,
    pub entries: usize,
}

fn apostrophe_number(q: Q) -> String {
    // 1'803.05
    let (m, s) = q.as_decimal_parts(4).expect("finite");
    let mut m = m;
    let mut s = s;
    while s < 2 {
        m *= 10;
        s += 1;
    }
    let mut d = Dec::new(m.abs(), s);
    d.grouped = true;
    d.text().replace(',', "'")
}

impl VisecaCase {
    pub fn generate(rng: &mut Rng, payees: &[&str]) -> VisecaCase {
        let cent = Q::from_parts(1, 2).unwrap();
        let n = 1 + rng.usize(8);
        let mut text = String::new();
        let mut day = NaiveDate::from_ymd_opt(2020, 8, 1).unwrap();
        for _ in 0..n {
            day += chrono::Duration::days(rng.range(0, 6));
            let eff = day + chrono::Duration::days(rng.range(0, 2));
            // the statement is line based: a payee cannot hold a line break
            let payee: String = rng.pick(payees).replace(['\n', '\r'], " ");
            let amount = Q::int(rng.range(1, 400000) as i128).mul(cent).unwrap();
            let neg = rng.chance(1, 6);
            let fmt = |d: NaiveDate| d.format("%d.%m.%y").to_string();
            match rng.below(4) {
                0 => {
                    // foreign currency with exchange rate and fee
                    let spent = Q::int(rng.range(1, 300000) as i128).mul(cent).unwrap();
                    let rate = Q::from_parts(1092432, 6).unwrap();
                    let equiv = spent.mul(rate).unwrap().round_half_even(2).unwrap();
                    text.push_str(&format!("{} {} {} EUR {} {}{}\n", fmt(day), fmt(eff), payee, apostrophe_number(spent), apostrophe_number(amount), if neg { " -" } else { "" }));
                    text.push_str("Service stations\n");
                    text.push_str(&format!("Exchange rate {} of {} CHF {}\n", q_text(rate), fmt(eff), apostrophe_number(equiv)));
                    if rng.chance(1, 2) {
                        text.push_str(&format!("Processing fee 1.75% CHF {}\n", apostrophe_number(Q::int(rng.range(1, 900) as i128).mul(cent).unwrap())));
                    }
                }
                1 => {
                    // same currency stated explicitly, optional fee
                    text.push_str(&format!("{} {} {} CHF {} {}{}\n", fmt(day), fmt(eff), payee, apostrophe_number(amount), apostrophe_number(amount), if neg { " -" } else { "" }));
                    text.push_str("Game, toy, and hobby shops\n");
                    if rng.chance(1, 2) {
                        text.push_str(&format!("Processing fee 1.75% CHF {}\n", apostrophe_number(Q::int(rng.range(1, 900) as i128).mul(cent).unwrap())));
                    }
                }
                2 => {
                    text.push_str(&format!("{} {} {} {}{}\n", fmt(day), fmt(eff), payee, apostrophe_number(amount), if neg { " -" } else { "" }));
                    text.push_str("Telecommunication services\n");
                }
                _ => {
                    // no category line (e.g. a payment)
                    text.push_str(&format!("{} {} {} {} -\n", fmt(day), fmt(eff), payee, apostrophe_number(amount)));
                }
            }
        }
        let account = random_account(rng, "Liabilities");
        let file_name = format!("viseca{}.txt", rng.below(1000));
        let config_yaml = format!(
            "path: {}\nencoding: UTF-8\naccount: {}\naccount_type: liability\noperator: Okane Card (fee)\ncommodity: CHF\nrewrite:\n  - account: Expenses:Telecom\n    matcher:\n    - category: Telecommunication services\n  - account: Expenses:Car:Gas\n    pending: true\n    matcher:\n    - category: Service stations\n",
            yaml_str(&file_name),
            yaml_str(&account)
        );
        VisecaCase { account, file_name, text, config_yaml, entries: n }
    }

    pub fn write(&self, dir: &Path) -> std::io::Result<(PathBuf, PathBuf)> {
        std::fs::create_dir_all(dir)?;
        let cfg = dir.join("config.yml");
        let src = dir.join(&self.file_name);
        std::fs::write(&cfg, &self.config_yaml)?;
        std::fs::write(&src, &self.text)?;
        Ok((cfg, src))
    }
}
