//! C14 — diagnostics name the right file and line.

use okane_core::report::ReportError;
use serde_json::json;

use crate::cli;
use crate::engine::{guarded, Check, Ctx, Recorder, Tier};
use crate::ops;
use crate::rng::Rng;

pub struct C14;

const VALID: &[&str] = &[
    "2024/01/05 Grocery\n    Expenses:Food    12.50 USD\n    Assets:Cash\n",
    "; just a comment\n; in two lines\n",
    "; コメント 日本語 – multi-byte text\n",
    "2024/01/06 * (42) スーパー 西友\n    ; メモ: 買い物\n    Expenses:食費    1,200 JPY\n    Assets:銀行\n",
    "account Assets:Cash\n    note お財布\n",
    "commodity CHF\n    format 1,000.00 CHF\n",
    "2024/01/07 Transfer\n    Assets:Bank    -100.00 CHF\n    Assets:Cash    100.00 CHF\n",
    "# hash comment Ünïcödé\n",
    "2024/01/08 ! pending\n    Assets:Bank    (2 * 3.5 CHF)\n    Income:Misc\n",
    "apply tag trip\n",
    "end apply tag\n",
    "include empty.ledger\n",
    "2024/01/09 Long one\n    ; :tag1:tag2:\n    Expenses:Food    1 USD\n    ; note on posting\n    Expenses:Rent    2 USD\n    Assets:Cash    -3 USD\n",
];

struct Bad {
    kind: &'static str,
    syntactic: bool,
    text: String,
    /// 0-based offset (within the entry) of the line at which a syntax error must have stopped
    stop: usize,
}

fn bad_entry(rng: &mut Rng) -> Bad {
    let note = rng.chance(1, 3);
    let n = if note { "    ; a note before the postings\n" } else { "" };
    let k = if note { 1 } else { 0 };
    let pick = rng.below(22);
    let (kind, syntactic, text, stop): (&'static str, bool, String, usize) = match pick {
        0 => ("unbalanced", false, format!("2024/02/01 BADQ\n{}    Bad:A    1 USD\n    Bad:B    2 USD\n", n), 0),
        1 => ("assertion-false", false, format!("2024/02/01 BADQ\n{}    Bad:A    1 USD = 5 USD\n    Bad:B\n", n), 0),
        2 => ("two-unconstrained", false, format!("2024/02/01 BADQ\n{}    Bad:A\n    Bad:B\n    Bad:C    1 USD\n", n), 0),
        3 => ("zero-rate", false, format!("2024/02/01 BADQ\n{}    Bad:A    1 USD @ 0 EUR\n    Bad:B\n", n), 0),
        4 => ("same-commodity-cost", false, format!("2024/02/01 BADQ\n{}    Bad:A    1 USD @ 2 USD\n    Bad:B\n", n), 0),
        5 => ("alias-conflict", false, "account Bad:Z\n    note conflicting alias below\n    alias Assets:Cash\n".to_string(), 0),
        6 => ("unbalanced-three-commodities", false, format!("2024/02/01 BADQ\n{}    Bad:A    1 USD\n    Bad:B    2 EUR\n    Bad:C    3 CHF\n", n), 0),
        7 => ("bad-date", true, "2024/13/45 BADQ\n    Bad:A    1 USD\n    Bad:B\n".to_string(), 0),
        8 => ("bad-literal", true, format!("2024/02/01 BADQ\n{}    Bad:A    1,23 USD\n    Bad:B\n", n), 1 + k),
        9 => ("unclosed-paren", true, format!("2024/02/01 BADQ\n{}    Bad:A    (1 USD\n    Bad:B\n", n), 1 + k),
        10 => ("unclosed-lot", true, format!("2024/02/01 BADQ\n{}    Bad:A    1 AAPL {{2 USD\n    Bad:B\n", n), 1 + k),
        11 => ("garbage-line", true, "garbage here, not an entry\n".to_string(), 0),
        12 => ("orphan-posting", true, "    Bad:B    2 USD\n".to_string(), 0),
        13 => ("bad-second-posting", true, format!("2024/02/01 BADQ\n{}    Bad:A    1 USD\n    Bad:B    2 USD @\n", n), 2 + k),
        15 => ("short-garbage-line", true, "xyz\n".to_string(), 0),
        16 => {
            // a long entry whose last posting is malformed close to its line end
            let extra = 4 + rng.usize(4);
            let mut t = format!("2024/02/01 BADQ\n{}", n);
            for j in 0..extra {
                t.push_str(&format!("    Bad:P{}    {} USD\n", j, j + 1));
            }
            t.push_str("    Bad:Last    (2 USD\n");
            ("long-entry-bad-last-posting", true, t, 1 + k + extra)
        }
        // a code / lot note is closed on its own line or not at all (a `)` further down, in another
        // entry, does not close it)
        // (an unclosed `(` after the date is not an error: the header then has a payee that starts with `(`)
        18 => ("unclosed-lot-note-with-date", true, format!("2024/02/01 BADQ\n{}    Bad:A    1 AAPL [2024/01/05] (bought early\n    Bad:B\n", n), 1 + k),
        19 => ("unclosed-lot-note", true, format!("2024/02/01 BADQ\n{}    Bad:A    1 AAPL (bought early\n    Bad:B\n", n), 1 + k),
        // a directive cut off right after its keyword; the next entry may follow on the very next line
        // parsing stops on a multi-byte character
        21 => ("garbage-line-wide", true, format!("{}\n", rng.pick_str(&["買い物 2024/01/02", "€ 12 spent", "日付なし entry", "Übertrag 2024"])), 0),
        20 => ("directive-cut-after-keyword", true, format!("{}\n", rng.pick_str(&["account", "include", "commodity", "apply tag", "apply", "end apply"])), 0),
        17 => ("unclosed-paren-short", true, format!("2024/02/01 BADQ\n{}    B    (1\n    Bad:B\n", n), 1 + k),
        _ => ("orphan-note-wide", true, "    ; メモ orphan note after a blank line\n".to_string(), 0),
    };
    // a rejected transaction may end in metadata: inline on its last posting, or on a line of its
    // own (still part of the entry); what follows the blank line after it is not
    let mut text = text;
    if !syntactic && text.starts_with("2024/") && rng.chance(1, 3) {
        if rng.chance(1, 2) {
            let body = text.trim_end_matches('\n').to_string();
            text = format!("{}  ; tail note\n", body);
        } else {
            text.push_str("    ; tail note on a line of its own\n");
        }
    }
    Bad { kind, syntactic, text, stop }
}

struct FileBuild {
    text: String,
    lines: usize,
    ws_blanks: bool,
}

impl FileBuild {
    fn new() -> Self {
        FileBuild { text: String::new(), lines: 0, ws_blanks: false }
    }
    fn push(&mut self, s: &str) {
        self.lines += s.matches('\n').count();
        self.text.push_str(s);
    }
    fn blank(&mut self, n: usize) {
        for _ in 0..n {
            // a blank line may consist of spaces and tabs
            if self.ws_blanks {
                let l = ["  \n", "\t\n", "\n", "    \t \n"][self.lines % 4];
                self.push(l);
            } else {
                self.push("\n");
            }
        }
    }
    fn valid_run(&mut self, rng: &mut Rng, max: usize) {
        let k = rng.usize(max + 1);
        for _ in 0..k {
            self.push(rng.pick_str(VALID));
            let b = if rng.chance(1, 6) { 4 + rng.usize(5) } else { 1 + rng.usize(3) };
            self.blank(b);
        }
    }
}

struct Parsed {
    /// files named as the location (after `-->` or in "failed to parse file")
    files: Vec<String>,
    arrow_line: Option<usize>,
    gutter: Vec<usize>,
}

fn parse_diagnostic(rendered: &str) -> Parsed {
    let mut p = Parsed { files: Vec::new(), arrow_line: None, gutter: Vec::new() };
    for l in rendered.lines() {
        if let Some(pos) = l.find("--> ") {
            let loc = l[pos + 4..].trim();
            let mut parts = loc.rsplitn(3, ':');
            let _col = parts.next();
            let line = parts.next().and_then(|x| x.parse::<usize>().ok());
            if let (Some(line), Some(path)) = (line, parts.next()) {
                p.files.push(path.to_string());
                p.arrow_line = Some(line);
            }
        }
        for marker in ["failed to parse file ", "failed to perform IO on file "] {
            if let Some(pos) = l.find(marker) {
                p.files.push(l[pos + marker.len()..].trim().to_string());
            }
        }
        let t = l.trim_start();
        let digits: String = t.chars().take_while(|c| c.is_ascii_digit()).collect();
        if !digits.is_empty() && t[digits.len()..].starts_with(" |") {
            if let Ok(n) = digits.parse() {
                p.gutter.push(n);
            }
        }
    }
    p
}

impl Check for C14 {
    fn id(&self) -> &'static str {
        "C14"
    }
    fn cases(&self, tier: Tier) -> u64 {
        tier.pick(40_000, 2_000_000)
    }
    fn run(&self, ctx: &Ctx, idx: u64, rec: &mut Recorder) {
        let mut rng = Rng::for_case(ctx.seed, "C14", idx);
        let bad = bad_entry(&mut rng);
        // nesting: 0 = bad entry in the root, 1 = in a file the root includes, 2 = two levels down
        let depth = rng.usize(3);
        let names = ["top/root.ledger", "top/inc/a.ledger", "top/inc/deep/b ü.ledger"];
        let mut builds: Vec<FileBuild> = (0..=depth).map(|_| FileBuild::new()).collect();
        let mut first = 0usize;
        let mut last = 0usize;
        for level in 0..=depth {
            let crlf_lead = rng.usize(3);
            let b = &mut builds[level];
            b.ws_blanks = rng.chance(1, 3);
            b.blank(crlf_lead);
            // the alias-conflict entry needs Assets:Cash to be in use before it
            if bad.kind == "alias-conflict" && level == 0 {
                b.push(VALID[0]);
                b.blank(1);
            }
            b.valid_run(&mut rng, 4);
            if level == depth {
                first = b.lines + 1;
                b.push(&bad.text);
                last = b.lines;
                if bad.text.contains("; tail note") && rng.chance(1, 2) {
                    // blank line(s), then a top-level comment
                    b.blank(1 + rng.usize(2));
                    b.push(rng.pick_str(&[VALID[1], VALID[2], "; a comment right after the rejected entry\n"]));
                    b.blank(1);
                } else if bad.kind.starts_with("directive-cut") && rng.chance(1, 2) {
                    // no blank line: the following line starts the next (valid) entry
                    b.push(rng.pick_str(&[VALID[0], VALID[1], VALID[7]]));
                    b.blank(1);
                } else {
                    b.blank(1 + rng.usize(2));
                }
                if bad.kind.starts_with("unclosed-lot-note") {
                    // a closing parenthesis does occur further down, in a valid entry
                    b.push("2024/01/06 Cafe) downtown\n    Expenses:Food    3 USD\n    Assets:Cash\n");
                    b.blank(1);
                }
                b.valid_run(&mut rng, 2);
            } else {
                let child = names[level + 1];
                let rel = if level == 0 { child.trim_start_matches("top/").to_string() } else { child.trim_start_matches("top/inc/").to_string() };
                b.push(&format!("include {}\n", rel));
                b.blank(1 + rng.usize(2));
                b.valid_run(&mut rng, 2);
            }
        }
        let crlf: Vec<bool> = (0..=depth).map(|_| rng.chance(1, 3)).collect();
        let files: Vec<(String, String)> = builds
            .iter()
            .enumerate()
            .map(|(i, b)| (format!("/mem/c14/{}", names[i]), if crlf[i] { b.text.replace('\n', "\r\n") } else { b.text.clone() }))
            .collect();
        let mut files = files;
        // every directory holds a zero-byte `empty.ledger` that valid content may include
        for d in ["top", "top/inc", "top/inc/deep"] {
            files.push((format!("/mem/c14/{}/empty.ledger", d), String::new()));
        }
        let root = files[0].0.clone();
        let want_file = files[depth].0.clone();
        let stop = first + bad.stop;
        let joined: String = files.iter().map(|(p, c)| format!("=== {}\n{}", p, c)).collect();
        rec.op("report::process (diagnostic)", &joined);
        let rendered = guarded(rec, || {
            ops::with_processed(&files, &root, None, |_c, r| match r {
                Ok(_) => None,
                Err(e) => Some((ops::render_error(e), matches!(e, ReportError::Load(_)))),
            })
        });
        let Some(rendered) = rendered else { return };
        let class = format!("{}|depth={}|{}", bad.kind, depth, if crlf[depth] { "crlf" } else { "lf" });
        rec.count(&format!("bad:{}", bad.kind));
        rec.count(&format!("depth:{}", depth));
        let wit = |extra: serde_json::Value| json!({"files": files.iter().map(|(p, c)| json!({"path": p, "content": c})).collect::<Vec<_>>(), "bad_entry_lines": [first, last], "detail": extra});
        let Some((text, is_load)) = rendered else {
            rec.violation("invalid-entry-accepted", &class, &format!("a ledger whose only defect is a {} entry was accepted", bad.kind), wit(json!({})));
            return;
        };
        rec.nontrivial(&joined);
        if is_load != bad.syntactic {
            rec.count("note:error-layer-differs-from-expectation");
        }
        self.judge(rec, &text, &want_file, first, last, if bad.syntactic { Some(stop) } else { None }, &class, "api", &wit);
        // the same through the real binary (stderr)
        if rng.chance(ctx.tier.pick(10, 4), 1000) && !rec.has_violation() {
            let dir = ctx.scratch.join(format!("c14-{}", idx));
            let _ = std::fs::remove_dir_all(&dir);
            let mut ok = true;
            for (path, c) in files.iter() {
                let p = dir.join(path.trim_start_matches("/mem/c14/"));
                ok &= std::fs::create_dir_all(p.parent().unwrap()).is_ok() && std::fs::write(&p, c).is_ok();
            }
            if ok {
                let canon = std::fs::canonicalize(&dir).unwrap_or(dir.clone());
                let r = canon.join(names[0]).to_string_lossy().into_owned();
                let want_real = canon.join(names[depth]).to_string_lossy().into_owned();
                for cmd in ["balance", "register", "accounts"] {
                    let argv: Vec<&str> = if cmd == "accounts" { vec![cmd, &r] } else { vec![cmd, "--now", "2030-01-01", &r] };
                    rec.op(&format!("okane {} (diagnostic)", cmd), &joined);
                    if let Ok(res) = cli::run_okane(&ctx.cli_a, &argv, &dir) {
                        rec.count(&format!("cli:{}-runs", cmd));
                        if res.ok() {
                            // `accounts` does no book-keeping: semantic defects are not its business
                            if bad.syntactic || cmd != "accounts" {
                                rec.violation("invalid-entry-accepted", &format!("cli-{}|{}", cmd, class), &format!("`okane {}` accepted a ledger with a {} entry", cmd, bad.kind), wit(json!({"stdout": res.stdout})));
                                break;
                            }
                            continue;
                        }
                        if res.code != Some(1) {
                            rec.violation("cli-abnormal-exit", &format!("{}|{}", cmd, res.class()), &format!("`okane {}` ended with {}", cmd, res.class()), wit(json!({"stderr": res.stderr})));
                            break;
                        }
                        if !self.judge(rec, &res.stderr, &want_real, first, last, if bad.syntactic { Some(stop) } else { None }, &class, &format!("cli-{}", cmd), &wit) {
                            break;
                        }
                    }
                }
            }
            let _ = std::fs::remove_dir_all(&dir);
        }
        if rec.wants_sample() {
            rec.sample(json!({"kind": bad.kind, "depth": depth, "entry_lines": [first, last], "diagnostic": text}));
        }
    }
    fn rule(&self) -> String {
        "Each case: a tree of 1-3 files (root, file included by the root, file included by that one; the deepest name has a space and a non-ASCII letter). Every \
         file starts with 0-2 blank lines and 0-4 valid entries from a pool (transactions, multi-line and multi-byte comments, account / commodity declarations, \
         metadata, apply tag, an include of a zero-byte file), separated by 1-3 (one in six: 4-8) blank lines (in one file in three the blank lines hold spaces and tabs), each file independently LF or CRLF; the deepest file then holds exactly one invalid entry followed by \
         0-2 valid ones; the including files hold the include line followed by more valid content. Invalid entry: semantic (unbalanced in 1 or 3 commodities, false \
         assertion, two unconstrained postings, zero rate, cost in the amount's commodity, alias conflicting with a used account) or syntactic (impossible date, \
         `1,23`, unclosed `(`, unclosed `{`, unclosed lot note `(` with a `)` further down in a valid entry, a directive cut off after its keyword (with the next entry on the very next line), dangling `@`, garbage line (long, 3 bytes short, and starting with a multi-byte character), malformed last posting of a 6-10 line entry, orphan posting / orphan multi-byte note after a blank line), optionally with a note line (a rejected transaction may also end in inline or own-line metadata followed by blank lines and a comment) \
         before the postings. Ground truth: the file, the entry's first and last line, and for syntax errors the line where parsing must stop. Oracle on the rendered \
         error chain (Display of the error and its sources; CLI stderr with ANSI stripped): the ledger is rejected; every file named as location (`--> f:l:c`, \
         `failed to parse file f`) is the file holding the entry; at least one line number is shown; every gutter number and the `-->` line lie in [first, last] \
         (syntax errors: [first, stop]). 1% of the cases repeat on real files through `okane balance`, `register`, `accounts`. Non-trivial = rejected ledger; \
         distinct by file contents."
            .to_string()
    }
    fn assumptions(&self) -> Vec<String> {
        vec![
            "line numbers are 1-based counts of LF in the file that holds the entry (CR is not a line end by itself)".into(),
            "an orphan indented line after a blank line is its own (invalid) entry".into(),
        ]
    }
    fn min_nontrivial(&self, tier: Tier) -> u64 {
        tier.pick(20_000, 500_000)
    }
}

impl C14 {
    #[allow(clippy::too_many_arguments)]
    fn judge(&self, rec: &mut Recorder, text: &str, want_file: &str, first: usize, last: usize, stop: Option<usize>, class: &str, via: &str, wit: &dyn Fn(serde_json::Value) -> serde_json::Value) -> bool {
        let d = parse_diagnostic(text);
        let hi = stop.unwrap_or(last);
        if let Some(f) = d.files.iter().find(|f| std::path::Path::new(f.as_str()) != std::path::Path::new(want_file)) {
            rec.violation("diagnostic-names-wrong-file", &format!("{}|{}", via, class), &format!("the diagnostic names {} but the offending entry is in {}", f, want_file), wit(json!({"diagnostic": text})));
            return false;
        }
        if d.files.is_empty() && text.contains(want_file) {
            // unknown layout, but the right file is named somewhere: the file clause holds
            rec.count(&format!("{}:file-named-in-unknown-layout", via));
        } else if d.files.is_empty() {
            rec.violation("diagnostic-names-no-file", &format!("{}|{}", via, class), &format!("the diagnostic does not name {}", want_file), wit(json!({"diagnostic": text})));
            return false;
        }
        if d.gutter.is_empty() && d.arrow_line.is_none() {
            rec.violation("diagnostic-shows-no-line", &format!("{}|{}", via, class), "the diagnostic shows no line number", wit(json!({"diagnostic": text})));
            return false;
        }
        let mut all: Vec<usize> = d.gutter.clone();
        all.extend(d.arrow_line);
        if let Some(bad) = all.iter().find(|n| **n < first || **n > hi) {
            let dir = if *bad < first { "before" } else { "after" };
            rec.violation(
                "line-outside-entry",
                &format!("{}|{}|{}", via, dir, class),
                &format!("the diagnostic shows line {} but the offending entry spans lines {}-{} of {}{}", bad, first, last, want_file, stop.map(|s| format!(" (parsing stops on line {})", s)).unwrap_or_default()),
                wit(json!({"diagnostic": text})),
            );
            return false;
        }
        rec.count(&format!("{}:diagnostic-agrees", via));
        true
    }
}
