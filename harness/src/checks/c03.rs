//! C03 — omitted and assigned amounts are inferred exactly.

use crate::checks::book;
use crate::engine::{Check, Ctx, Recorder, Tier};
use crate::gen::bookgen;

pub struct C03;

impl Check for C03 {
    fn id(&self) -> &'static str {
        "C03"
    }
    fn cases(&self, tier: Tier) -> u64 {
        tier.pick(120_000, 10_000_000)
    }
    fn run(&self, ctx: &Ctx, idx: u64, rec: &mut Recorder) {
        book::run_book_case("C03", bookgen::P_INFER, ctx, idx, rec);
    }
    fn rule(&self) -> String {
        "Histories of 0-5 accepted transactions followed by one more; 55% of the transactions have an omitted-amount posting at a \
         random position among 1-4 siblings (with costs, lots, 1-3 commodities), 4% of those a second one; a quarter of the \
         transactions have an assignment posting `Acct = X` (bare `= 0`, `0 C`, a held or a new commodity) on an account whose \
         history left 0, 1 or several commodities. Oracle: from Ledger::transactions() the inferred posting equals minus the sum of \
         the other postings' balancing values commodity by commodity, an assigned posting equals X minus the previous balance \
         (bare 0: minus the whole single-commodity balance); Ledger::balance() of every account equals the model's after the \
         accepted history; two unconstrained postings and `= 0` over several commodities are rejected. Non-trivial = final \
         transaction has a specified outcome; distinct by ledger text."
            .to_string()
    }
    fn assumptions(&self) -> Vec<String> {
        vec![
            "reference model harness/src/model/book.rs is a correct reading of the C03 statement".into(),
            "the inferred amount is not rounded (statement: 'exactly the negation')".into(),
        ]
    }
    fn min_nontrivial(&self, tier: Tier) -> u64 {
        tier.pick(50_000, 4_000_000)
    }
}
