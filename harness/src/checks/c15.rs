//! C15 — import emits ledger text that reads back as intended.

use okane_core::parse::{parse_ledger, ParseOptions};
use okane_core::syntax::plain::LedgerEntry;
use serde_json::json;

use crate::checks::import_common::{run_import, yaml_str, CamtCase, CsvCase, VisecaCase};
use crate::engine::{guarded, Check, Ctx, Recorder, Tier};
use crate::gen::syntax::dump_entry;
use crate::model::q::Q;
use crate::rng::Rng;

pub struct C15;

/// (feature name, text carrying it)
const HOSTILE: &[(&str, &str)] = &[
    ("semicolon", "Shop; extra"),
    ("space-semicolon", "Shop  ; extra"),
    ("newline", "Shop\nsecond line"),
    ("newline-then-indent", "Shop\n    Evil:Account    5 CHF"),
    ("blank-line-then-entry", "Shop\n\n2030/01/01 injected\n    A    1 CHF\n    B"),
    ("crlf", "Shop\r\nsecond"),
    ("bare-cr", "Shop\rsecond"),
    ("leading-paren", "(Shop) downtown"),
    ("leading-star", "* Shop"),
    ("leading-bang", "! Shop"),
    ("tab", "Shop\tstore"),
    ("double-space", "Shop  store"),
    ("leading-space", "  Shop"),
    ("trailing-space", "Shop  "),
    ("equals-at", "a = b @ c @@ d"),
    ("braces", "x {y} [z] {{w}}"),
    ("wide", "スーパー　全角スペース"),
    ("colon-pair", "Key: value"),
    ("tag-like", ":tag:other:"),
    ("double-colon", "Key:: 1 + 2"),
    ("date-like", "2024/01/01 looks like a date"),
    ("paren-in-middle", "Shop (branch 2) east"),
    ("quote", "Shop \"quoted\" 'single'"),
    ("percent-hash", "50% off #12 | pipe"),
    ("leading-wide-space", "\u{3000}振込 Yamada"),
    ("leading-nbsp", "\u{a0}Shop"),
    ("colon-start", ":-D thanks"),
    ("colon-space-start", ": see invoice 12"),
    ("open-paren-only", "A(1 tea"),
    ("benign", "Plain Shop"),
];

fn pick_texts(rng: &mut Rng, hostile_pct: u64) -> (Vec<String>, Vec<&'static str>) {
    // a pool of 4 texts; usually exactly one carries one hostile feature
    let mut texts: Vec<String> = vec!["Plain Shop".into(), "Migros Zuerich".into(), "SBB CFF FFS".into()];
    let mut feats = Vec::new();
    let n_hostile = if rng.chance(hostile_pct, 100) { 1 } else { 0 };
    for _ in 0..n_hostile {
        let (f, t) = *rng.pick(HOSTILE);
        if f != "benign" && !feats.contains(&f) {
            feats.push(f);
            texts.push(t.to_string());
        }
    }
    feats.sort();
    (texts, feats)
}

/// `num[MANTe-SCALE STYLE]` -> value-only form; returns the numbers in order.
pub fn normalise(dump: &str) -> (String, Vec<(i128, u32)>) {
    let mut out = String::new();
    let mut nums = Vec::new();
    let mut rest = dump;
    while let Some(p) = rest.find("num[") {
        out.push_str(&rest[..p]);
        let tail = &rest[p + 4..];
        let end = tail.find(']').unwrap_or(tail.len());
        let body = &tail[..end];
        let mant_scale = body.split(' ').next().unwrap_or("");
        let (m, s) = mant_scale.split_once("e-").unwrap_or((mant_scale, "0"));
        let (m, s): (i128, u32) = (m.parse().unwrap_or(0), s.parse().unwrap_or(0));
        nums.push((m, s));
        let q = Q::from_parts(m, s).unwrap_or(Q::ZERO);
        out.push_str(&format!("num[{}]", q.to_string_exact()));
        rest = &tail[(end + 1).min(tail.len())..];
    }
    out.push_str(rest);
    (out, nums)
}

fn first_diff_kind(a: &str, b: &str) -> String {
    for (la, lb) in a.lines().zip(b.lines()) {
        if la != lb {
            let t = la.trim_start();
            let kind = t.split(|c: char| c == ' ' || c == '=').next().unwrap_or("?");
            if kind == "TXN" {
                // which header field?
                for key in ["date=", "edate=", "state=", "code=", "payee="] {
                    let fa = la.split(key).nth(1).map(|x| x.split(' ').next().unwrap_or(""));
                    let fb = lb.split(key).nth(1).map(|x| x.split(' ').next().unwrap_or(""));
                    if key == "payee=" {
                        if la.split("payee=").nth(1) != lb.split("payee=").nth(1) {
                            return "header-payee".into();
                        }
                    } else if fa != fb {
                        return format!("header-{}", key.trim_end_matches('='));
                    }
                }
                return "header".into();
            }
            return kind.to_lowercase();
        }
    }
    if a.lines().count() != b.lines().count() {
        return "line-count".into();
    }
    "?".into()
}

impl Check for C15 {
    fn id(&self) -> &'static str {
        "C15"
    }
    fn cases(&self, tier: Tier) -> u64 {
        tier.pick(20_000, 1_000_000)
    }
    fn run(&self, ctx: &Ctx, idx: u64, rec: &mut Recorder) {
        let mut rng = Rng::for_case(ctx.seed, "C15", idx);
        let (texts, feats) = pick_texts(&mut rng, 70);
        let text_refs: Vec<&str> = texts.iter().map(|s| s.as_str()).collect();
        let dir = ctx.scratch.join(format!("c15-{}", idx));
        let importer;
        let (cfg, src, config_yaml, content, precisions): (_, _, String, String, Vec<(String, u32)>);
        // CSV: (account, the movement each record states for it), oldest first
        let mut stated: Option<(String, Vec<Q>)> = None;
        match rng.below(10) {
            0..=5 => {
                importer = "csv";
                let mut case = CsvCase::generate(&mut rng, &text_refs, &text_refs);
                // categories may carry the text as well (they reach the output through a payee template)
                if rng.chance(1, 3) {
                    for r in case.rows.iter_mut() {
                        if rng.chance(1, 2) {
                            r.category = rng.pick(&texts).clone();
                        }
                    }
                    case.render(&mut rng);
                }
                // configured precisions pad the printed numbers
                let mut prec = Vec::new();
                if rng.chance(1, 2) {
                    // (a precision below the decimals of the statement's numbers pads nothing and must not round)
                    let p = rng.below(5) as u32;
                    let comms = [case.primary.clone(), "EUR".to_string(), "USD".to_string(), "GBP".to_string()];
                    let mut y = case.config_yaml.replace("format:\n", "format:\n  commodity:\n%%\n");
                    let mut block = String::new();
                    for c in comms.iter() {
                        if !prec.iter().any(|(k, _): &(String, u32)| k == c) {
                            block.push_str(&format!("    {}:\n      precision: {}\n", c, p));
                            prec.push((c.clone(), p));
                        }
                    }
                    y = y.replace("%%\n", &block);
                    case.config_yaml = y;
                }
                // rules: code / payee captures, so that statement text reaches code and payee positions
                crate::checks::import_common::push_rules(&mut case.config_yaml, "  - matcher:\n      payee: \"Debit Card (?P<code>\\\\S+) (?P<payee>.*)\"\n  - matcher:\n      payee: \"Migros\"\n    account: Expenses:Grocery\n");
                let Ok((c, s)) = case.write(&dir) else {
                    rec.skip();
                    return;
                };
                cfg = c;
                src = s;
                config_yaml = case.config_yaml.clone();
                content = case.csv_text.clone();
                precisions = prec;
                stated = Some((case.account.clone(), case.rows.iter().map(|r| r.amount).collect()));
            }
            6 => {
                importer = "viseca";
                let case = VisecaCase::generate(&mut rng, &text_refs);
                let Ok((c, s)) = case.write(&dir) else {
                    rec.skip();
                    return;
                };
                cfg = c;
                src = s;
                config_yaml = case.config_yaml.clone();
                content = case.text.clone();
                precisions = vec![];
            }
            _ => {
                importer = "camt053";
                let mut case = CamtCase::generate(&mut rng, &text_refs);
                // references become codes: let some carry the text too
                if rng.chance(1, 3) {
                    for e in case.entries.iter_mut() {
                        for d in e.details.iter_mut() {
                            if rng.chance(1, 3) {
                                d.reference = Some(rng.pick(&texts).clone());
                            }
                        }
                    }
                    case.render();
                }
                case.config_yaml.push_str(&format!(
                    "rewrite:\n  - matcher:\n      creditor_name: {}\n  - matcher:\n      additional_transaction_info: {}\n    account: Expenses:Matched\n  - matcher:\n      remittance_unstructured_info: {}\n",
                    yaml_str("(?s)(?P<payee>.+)"),
                    yaml_str("(?s)Shop"),
                    yaml_str("(?s)(?P<payee>.+)")
                ));
                let Ok((c, s)) = case.write(&dir) else {
                    rec.skip();
                    return;
                };
                cfg = c;
                src = s;
                config_yaml = case.config_yaml.clone();
                content = case.xml.clone();
                precisions = vec![(case.currency.clone(), 2)];
            }
        }
        let input = format!("=== config\n{}=== {}\n{}", config_yaml, src.file_name().unwrap().to_string_lossy(), content);
        rec.op(&format!("import ({})", importer), &input);
        let r = guarded(rec, || run_import(&cfg, &config_yaml, &src, &content));
        let _ = std::fs::remove_dir_all(&dir);
        let Some(r) = r else { return };
        let feat_class = if feats.is_empty() { "benign-text".to_string() } else { feats.join("+") };
        rec.count(&format!("importer:{}", importer));
        rec.count(&format!("text:{}", feat_class));
        let imp = match r {
            Ok(i) => i,
            Err(e) => {
                // the importer may refuse a statement (that is an error message, not wrong output)
                rec.count("importer-refused-statement");
                rec.count(&format!("refused:{}", e.split(':').next().unwrap_or("")));
                rec.skip();
                return;
            }
        };
        rec.nontrivial(&input);
        let wit = |extra: serde_json::Value| json!({"config": config_yaml, "statement": content, "printed": imp.text, "detail": extra});
        // parse what was printed with okane's own parser
        rec.op("parse_ledger (import output)", &imp.text);
        let text = imp.text.clone();
        let parsed = guarded(rec, move || {
            let r: Result<Vec<_>, _> = parse_ledger::<okane_core::syntax::plain::Ident>(&ParseOptions::default(), &text).collect();
            match r {
                Ok(v) => Ok(v.iter().map(|(_, e): &(_, LedgerEntry)| dump_entry(e)).collect::<Vec<String>>()),
                Err(e) => Err(e.to_string()),
            }
        });
        let Some(parsed) = parsed else { return };
        let class = format!("{}|{}", importer, feat_class);
        // With hostile statement text the class is the text feature alone: what exactly goes wrong
        // (parse error, extra entries, which field differs) depends on the field that carried it.
        let hostile = !feats.is_empty();
        let report = |rec: &mut Recorder, clause: &str, class: &str, what: &str, w: serde_json::Value| {
            if hostile {
                rec.violation("statement-text-not-read-back", &format!("text-feature={}", feat_class), &format!("[{} / {}] {}", clause, class, what), w);
            } else {
                rec.violation(clause, class, what, w);
            }
        };
        let dumps = match parsed {
            Ok(d) => d,
            Err(e) => {
                report(rec, "printed-text-does-not-parse", &class, &format!("okane cannot parse what `import` printed: {}", e.lines().next().unwrap_or("")), wit(json!({"parse_error": e})));
                return;
            }
        };
        if dumps.len() != imp.tree_dumps.len() {
            report(
                rec,
                "statement-text-changes-transaction-count",
                &class,
                &format!("the importer built {} transactions, its printed text reads back as {} entries", imp.tree_dumps.len(), dumps.len()),
                wit(json!({"built": imp.tree_dumps.len(), "read_back": dumps.len()})),
            );
            return;
        }
        // "printed without change of value": what the statement says is what is printed (benign text
        // only: hostile text may legitimately change the number of records)
        if let (Some((account, amounts)), false) = (&stated, hostile) {
            if amounts.len() == imp.txns.len() {
                for (k, (want, t)) in amounts.iter().zip(imp.txns.iter()).enumerate() {
                    let got = t.posts.iter().find(|p| &p.account == account).and_then(|p| p.amount.as_ref()).map(|(v, _)| *v);
                    if got != Some(*want) {
                        rec.violation(
                            "statement-value-changed",
                            &class,
                            &format!("record {}: the statement moves the account by {}, the imported transaction by {:?}", k + 1, want.to_string_exact(), got.map(|v| v.to_string_exact())),
                            wit(json!({"record": k + 1})),
                        );
                        return;
                    }
                }
                rec.count("statement-values-kept");
            }
        }
        for (k, (built, read)) in imp.tree_dumps.iter().zip(dumps.iter()).enumerate() {
            let (nb, numb) = normalise(built);
            let (nr, numr) = normalise(read);
            if nb != nr {
                let kind = first_diff_kind(&nb, &nr);
                report(
                    rec,
                    "read-back-differs",
                    &format!("{}|{}", class, kind),
                    &format!("transaction {} reads back differently from what the importer built (first difference: {})", k + 1, kind),
                    wit(json!({"built": nb, "read_back": nr})),
                );
                return;
            }
            // numbers: same value (checked above); printed scale never below the tree's, and at least the configured precision
            for ((_, sb), (_, sr)) in numb.iter().zip(numr.iter()) {
                if sr < sb {
                    rec.violation("printed-number-lost-decimals", &class, &format!("transaction {}: a number with {} decimals was printed with {}", k + 1, sb, sr), wit(json!({"built": built, "read_back": read})));
                    return;
                }
            }
            // configured precision: every amount in that commodity shows at least that many decimals
            for (c, p) in &precisions {
                for line in read.lines() {
                    if let Some(pos) = line.find("num[") {
                        if line.contains(&format!("<{}>", c)) && (line.contains("AMOUNT") || line.contains("ASSERT")) {
                            let body = &line[pos + 4..];
                            let scale: u32 = body.split("e-").nth(1).and_then(|x| x.split(' ').next()).and_then(|x| x.parse().ok()).unwrap_or(0);
                            if scale < *p {
                                rec.violation("configured-precision-not-applied", &format!("{}|precision={}", importer, p), &format!("transaction {}: `{}` printed with {} decimals, configured precision for {} is {}", k + 1, line.trim(), scale, c, p), wit(json!({"read_back": read})));
                                return;
                            }
                        }
                    }
                }
            }
        }
        rec.count("read-back-agrees");
        if rec.wants_sample() {
            rec.sample(json!({"importer": importer, "features": feats, "printed_head": imp.text.chars().take(600).collect::<String>()}));
        }
    }
    fn rule(&self) -> String {
        let feats: Vec<&str> = HOSTILE.iter().map(|(f, _)| *f).collect();
        format!(
            "Each case: a generated statement for the CSV importer (60%, all layouts of C16, payee templates, conversions, charges, configured precisions 0-4) or the ISO \
             Camt053 importer (30%, batches, charges, references as codes, rules capturing payees from creditor name / remittance info with (?s)). 70% of the cases put \
             one hostile text into the free-text fields - payee, note, category, party names, remittance and additional info, references - drawn \
             from: {}. Oracle: T = canonical dump of every transaction the importer built (import + to_double_entry); text = what ImportCmd::run prints; E = \
             parse_ledger(text). The text must parse, E must have exactly one transaction per built transaction and nothing else, and E[i] must equal T[i] field by \
             field (date, effective date, state, code, payee, posting states, accounts, amounts, costs, assertions, metadata of every kind) with numbers compared by \
             value; a printed number never has fewer decimals than the tree's and amounts in a commodity with a configured precision show at least that many. A \
             statement the importer refuses with an error is counted, not judged. One case in ten is a Viseca card statement (payee text only). Non-trivial = imported \
             statement; distinct by config + statement.",
            feats.join(", ")
        )
    }
    fn assumptions(&self) -> Vec<String> {
        vec![
            "payee, code and metadata text are compared after trimming surrounding whitespace (the canonical dump trims)".into(),
            "with hostile statement text the violation class is the text feature alone (what goes wrong depends on the field that carried it); with benign text it is importer + clause + first differing field".into(),
        ]
    }
    fn min_nontrivial(&self, tier: Tier) -> u64 {
        tier.pick(8_000, 300_000)
    }
}
