//! C16 — CSV import books each row with the right sign, amount and balance.

use serde_json::json;

use crate::checks::book::{run_code, to_multi};
use crate::checks::import_common::{run_import, CsvCase, RateMode, TreePosting, BENIGN_PAYEES};
use crate::engine::{guarded, Check, Ctx, Recorder, Tier};
use crate::model::q::Q;
use crate::ops;
use crate::rng::Rng;

pub struct C16;

fn layout_class(c: &CsvCase) -> String {
    let l = &c.layout;
    format!(
        "{}|{}|{}{}{}",
        if l.liability { "liability" } else { "asset" },
        if l.credit_debit { "credit-debit" } else { "amount" },
        if l.new_to_old { "new-to-old" } else { "old-to-new" },
        if l.conversion_cols { if l.rate_mode == RateMode::PriceOfSecondary { "|price-of-secondary" } else { "|price-of-primary" } } else { "" },
        if l.conversion_cols && l.compute { "|compute" } else { "" }
    )
}

impl Check for C16 {
    fn id(&self) -> &'static str {
        "C16"
    }
    fn cases(&self, tier: Tier) -> u64 {
        tier.pick(20_000, 1_000_000)
    }
    fn run(&self, ctx: &Ctx, idx: u64, rec: &mut Recorder) {
        let mut rng = Rng::for_case(ctx.seed, "C16", idx);
        let case = CsvCase::generate(&mut rng, BENIGN_PAYEES, &["memo", "card 1234", "メモ"]);
        let dir = ctx.scratch.join(format!("c16-{}", idx));
        let Ok((cfg, src)) = case.write(&dir) else {
            rec.skip();
            return;
        };
        let input = format!("=== config\n{}=== {}\n{}", case.config_yaml, case.file_name, case.csv_text);
        rec.op("import (csv)", &input);
        let r = guarded(rec, || run_import(&cfg, &case.config_yaml, &src, &case.csv_text));
        let _ = std::fs::remove_dir_all(&dir);
        let Some(r) = r else { return };
        let class = layout_class(&case);
        let wit = |extra: serde_json::Value| json!({"config": case.config_yaml, "csv": case.csv_text, "detail": extra});
        let imp = match r {
            Ok(i) => i,
            Err(e) => {
                rec.violation("consistent-statement-rejected", &class, &format!("the importer rejected a well-formed CSV statement: {}", e), wit(json!({"error": e})));
                return;
            }
        };
        rec.nontrivial(&input);
        rec.count(&format!("layout:{}", class));
        rec.count_n("rows", case.rows.len() as u64);
        if imp.txns.len() != case.rows.len() {
            rec.violation("row-count-differs", &class, &format!("{} rows in the statement, {} transactions imported", case.rows.len(), imp.txns.len()), wit(json!({"output": imp.text})));
            return;
        }
        for (i, (row, t)) in case.rows.iter().zip(imp.txns.iter()).enumerate() {
            let rw = |what: &str| format!("row {} ({} {} {}): {}", i + 1, row.date, row.payee, row.amount.to_string_exact(), what);
            if t.date != row.date {
                // is it the date of the mirrored row? then the order is wrong
                let mirrored = case.rows[case.rows.len() - 1 - i].date;
                let clause = if t.date == mirrored && mirrored != row.date { "rows-not-oldest-first" } else { "date-differs" };
                rec.violation(clause, &class, &rw(&format!("imported with date {}", t.date)), wit(json!({"output": imp.text})));
                return;
            }
            let acct: Vec<&TreePosting> = t.posts.iter().filter(|p| p.account == case.account).collect();
            if acct.len() != 1 {
                rec.violation("account-posting-count", &class, &rw(&format!("{} postings on {}", acct.len(), case.account)), wit(json!({"output": imp.text})));
                return;
            }
            let ap = acct[0];
            match &ap.amount {
                Some((v, c)) if *v == row.amount && *c == row.commodity => {}
                other => {
                    let clause = match other {
                        Some((v, _)) if *v == row.amount.neg() => "account-posting-sign-flipped",
                        _ => "account-posting-amount-differs",
                    };
                    // same-day rows swapped (order) look like amount differences: tell them apart
                    let clause = if case.rows.iter().any(|r2| r2.date == row.date && Some(&(r2.amount, r2.commodity.clone())) == other.as_ref()) && clause == "account-posting-amount-differs" { "rows-not-oldest-first" } else { clause };
                    rec.violation(clause, &class, &rw(&format!("{} moved by {:?}", case.account, other.as_ref().map(|(v, c)| format!("{} {}", v.to_string_exact(), c)))), wit(json!({"output": imp.text})));
                    return;
                }
            }
            if case.layout.balance_col {
                match &ap.assertion {
                    Some((v, c)) if *v == row.balance_after && *c == row.commodity => {}
                    other => {
                        rec.violation("balance-assertion-differs", &class, &rw(&format!("running balance {} became assertion {:?}", row.balance_after.to_string_exact(), other.as_ref().map(|(v, c)| format!("{} {}", v.to_string_exact(), c)))), wit(json!({"output": imp.text})));
                        return;
                    }
                }
            } else if ap.assertion.is_some() {
                rec.violation("balance-assertion-differs", &class, &rw("an assertion appeared without a balance column"), wit(json!({"output": imp.text})));
                return;
            }
            let others: Vec<&TreePosting> = t.posts.iter().filter(|p| p.account != case.account && p.account != "Expenses:Commissions").collect();
            if others.len() != 1 {
                rec.violation("counter-posting-count", &class, &rw(&format!("{} counter postings", others.len())), wit(json!({"output": imp.text})));
                return;
            }
            let cp = others[0];
            let want_default = if row.amount.signum() > 0 { "Income:Unknown" } else { "Expenses:Unknown" };
            // (a record that moves nothing has no direction: either default account is accepted)
            let zero_ok = row.amount.is_zero() && (cp.account == "Income:Unknown" || cp.account == "Expenses:Unknown");
            if cp.account != want_default && !zero_ok {
                rec.violation("counter-account-differs", &class, &rw(&format!("counter account {} (no rule assigns one; expected {})", cp.account, want_default)), wit(json!({"output": imp.text})));
                return;
            }
            let effective_conv = if row.conversion_disabled { None } else { row.conv.as_ref() };
            if row.conversion_disabled {
                rec.count("row:conversion-disabled-by-rule");
            }
            match effective_conv {
                None => {
                    let ok = matches!(&cp.amount, Some((v, c)) if *v == row.amount.neg() && *c == row.commodity) && cp.cost.is_none() && ap.cost.is_none();
                    if !ok {
                        rec.violation("counter-posting-not-opposite", &class, &rw(&format!("counter posting {:?} cost {:?}", cp.amount.as_ref().map(|(v, c)| format!("{} {}", v.to_string_exact(), c)), cp.cost.as_ref().map(|x| x.1.to_string_exact()))), wit(json!({"output": imp.text})));
                        return;
                    }
                    rec.count("row:plain");
                }
                Some(cv) => {
                    let sign = if row.amount.signum() > 0 { Q::int(-1) } else { Q::ONE };
                    let want_value = if cv.compute {
                        match cv.mode {
                            RateMode::PriceOfPrimary => row.amount.abs().mul(cv.rate),
                            RateMode::PriceOfSecondary => row.amount.abs().div(cv.rate),
                        }
                    } else {
                        Some(cv.sec_amount)
                    };
                    let Some(want_value) = want_value.and_then(|v| v.mul(sign)) else {
                        rec.skip();
                        return;
                    };
                    let value_ok = match &cp.amount {
                        Some((v, c)) => c == &cv.sec_commodity && (*v == want_value || (cv.compute && crate::checks::c09::close(*v, want_value))),
                        None => false,
                    };
                    if !value_ok {
                        rec.violation("converted-counter-amount-differs", &class, &rw(&format!("counter posting {:?}, expected {} {}", cp.amount.as_ref().map(|(v, c)| format!("{} {}", v.to_string_exact(), c)), want_value.to_string_exact(), cv.sec_commodity)), wit(json!({"output": imp.text})));
                        return;
                    }
                    // the rate is attached to the commodity it prices
                    let (want_on_counter, want_on_account) = match cv.mode {
                        RateMode::PriceOfSecondary => (Some((false, cv.rate, row.commodity.clone())), None),
                        RateMode::PriceOfPrimary => (None, Some((false, cv.rate, cv.sec_commodity.clone()))),
                    };
                    if cp.cost != want_on_counter || ap.cost != want_on_account {
                        rec.violation(
                            "rate-attached-to-wrong-side",
                            &class,
                            &rw(&format!("rate {} ({:?}): account posting cost {:?}, counter posting cost {:?}", cv.rate.to_string_exact(), cv.mode, ap.cost.as_ref().map(|x| format!("{} {}", x.1.to_string_exact(), x.2)), cp.cost.as_ref().map(|x| format!("{} {}", x.1.to_string_exact(), x.2)))),
                            wit(json!({"output": imp.text})),
                        );
                        return;
                    }
                    rec.count(if cv.compute { "row:conversion-computed" } else { "row:conversion-extracted" });
                }
            }
            let charges: Vec<&TreePosting> = t.posts.iter().filter(|p| p.account == "Expenses:Commissions").collect();
            match (row.charge, charges.as_slice()) {
                (None, []) => {}
                (Some(c), [p]) if matches!(&p.amount, Some((v, cm)) if *v == c && *cm == row.commodity) => rec.count("row:with-charge"),
                _ => {
                    // the statement does not lay down how a charge is booked; the end-to-end clause
                    // (accepted by book-keeping, ends at the last balance) judges the result
                    rec.count("note:charge-posting-differs-from-convention");
                }
            }
        }
        rec.count("tree-agrees");
        // end to end: funding + imported text through okane's own book-keeping
        if !case.layout.liability && case.layout.balance_col {
            let exact_conversions = case.rows.iter().all(|r| match &r.conv {
                Some(c) if c.compute => match c.mode {
                    RateMode::PriceOfSecondary => r.amount.div(c.rate).map(|q| q.as_decimal_parts(20).is_some()).unwrap_or(false),
                    RateMode::PriceOfPrimary => true,
                },
                _ => true,
            });
            // the user's main ledger declares its commodities (with the precision the statement uses),
            // which is what lets a computed, non-terminating conversion amount balance
            let mut decls = String::new();
            for c in ["CHF", "USD", "JPY", "EUR", "GBP"] {
                let dp = if c == "JPY" { 0 } else { 2 };
                decls.push_str(&format!("commodity {}\n    format 1,000{}{} {}\n\n", c, if dp > 0 { "." } else { "" }, "0".repeat(dp), c));
            }
            let ledger = format!("{}2000/01/01 funding\n    {}    {} {}\n    Equity:Opening\n\n{}", decls, case.account, crate::checks::import_common::q_text(case.opening), case.primary, imp.text);
            let files = vec![(ops::ROOT.to_string(), ledger.clone())];
            rec.op("report::process (funding + import output)", &ledger);
            let Some(r) = guarded(rec, || run_code(&files, ops::ROOT)) else { return };
            let e2e_class = format!("{}|{}", class, if exact_conversions { "exact" } else { "computed-amount-not-a-finite-decimal" });
            match r {
                Err(e) => {
                    rec.violation("imported-ledger-rejected", &format!("{}|{}", e.kind, e2e_class), &format!("the imported ledger of a consistent statement is rejected by book-keeping: {}", e.message), json!({"config": case.config_yaml, "csv": case.csv_text, "ledger": ledger, "error": e.rendered}));
                }
                Ok(l) => {
                    let got = l.balances.get(&case.account).and_then(|m| m.get(&case.primary)).copied().unwrap_or(Q::ZERO);
                    let want = case.rows.last().map(|r| r.balance_after).unwrap_or(case.opening);
                    if got != want {
                        rec.violation("final-balance-differs", &e2e_class, &format!("{} ends at {} {}, the statement's last balance is {}", case.account, got.to_string_exact(), case.primary, want.to_string_exact()), json!({"config": case.config_yaml, "csv": case.csv_text, "ledger": ledger}));
                    } else {
                        rec.count("end-to-end:accepted-and-ends-at-last-balance");
                    }
                }
            }
        }
        let _ = to_multi;
        if rec.wants_sample() {
            rec.sample(json!({"config": case.config_yaml, "csv": case.csv_text, "output": imp.text}));
        }
    }
    fn rule(&self) -> String {
        "Each case: a consistent statement (opening balance, 1-8 rows with signed amounts and running balance, several rows per day, optional foreign-currency rows \
         whose amount equals secondary amount x rate (+/- charge)) rendered as CSV under a random layout: columns by index or by label, delimiter , ; or tab, 0-2 \
         skipped head lines, four date formats, `amount` column (negated for liability accounts) or credit/debit columns, optional commodity / balance / rate / \
         secondary amount / secondary commodity / charge / note / category columns, payee by template, plain / grouped / `$`-prefixed numbers, old_to_new or \
         new_to_old order (file reversed accordingly), asset or liability account, conversion in both rate modes, extracted or computed amount; a trailing empty \
         record now and then. Oracle on the tree (import + to_double_entry), row by row oldest first: date; the configured account moves by exactly the row's amount \
         (credit positive, debit negative) with the running balance as assertion; the counter posting (Income:Unknown / Expenses:Unknown by sign) carries the opposite \
         amount, or the secondary amount with opposite sign and the rate attached to the commodity it prices (price_of_secondary: on the counter posting in the \
         primary commodity; price_of_primary: on the account posting in the secondary commodity). End to end (asset \
         accounts with a balance column): funding transaction + printed import output must be accepted by report::process and end the account at the statement's last \
         balance. Non-trivial = imported statement; distinct by config + CSV."
            .to_string()
    }
    fn assumptions(&self) -> Vec<String> {
        vec![
            "a charge column is only generated on foreign-currency rows where amount = secondary x rate -/+ charge (the statement does not define a charge on a plain row)".into(),
            "posting order inside a transaction is not part of the statement; postings are identified by account".into(),
        ]
    }
    fn min_nontrivial(&self, tier: Tier) -> u64 {
        tier.pick(10_000, 300_000)
    }
}
