//! C09 — commodity conversion uses the right price.

use std::collections::BTreeMap;

use chrono::NaiveDate;
use okane_core::report::query;
use serde_json::json;

use crate::checks::book::to_multi;
use crate::cli;
use crate::engine::{guarded, Check, Ctx, Recorder, Tier};
use crate::gen::pricegen::PriceScenario;
use crate::model::book::Multi;
use crate::model::price::{Chain, Conversion, PriceModel};
use crate::model::q::Q;
use crate::ops;
use crate::rng::Rng;

pub struct C09;

pub fn close(a: Q, b: Q) -> bool {
    let Some(diff) = a.sub(b) else { return false };
    let f = |q: Q| (q.n as f64 / q.d as f64).abs();
    f(diff) <= f(a).max(f(b)) * 1e-18 + 1e-26
}

fn chain_desc(c: &Chain) -> String {
    format!(
        "{} (ledger steps {}, steps {}, stalest step {} d): {}",
        c.path.join(" -> "),
        c.dist.ledger_hops,
        c.dist.hops,
        c.max_stale,
        c.rates.iter().map(|r| r.to_string_exact()).collect::<Vec<_>>().join(" | ")
    )
}

/// rows of one `price.table` hook event: commodity -> (ledger hops, hops, staleness days)
fn parse_table(detail: &str) -> Option<((String, NaiveDate), BTreeMap<String, (usize, usize, i64)>)> {
    let mut it = detail.splitn(3, '|');
    let target = it.next()?.to_string();
    let date: NaiveDate = it.next()?.parse().ok()?;
    let mut rows = BTreeMap::new();
    for r in it.next()?.split(',').filter(|s| !s.is_empty()) {
        let p: Vec<&str> = r.split(':').collect();
        if p.len() < 5 {
            return None;
        }
        rows.insert(p[0].to_string(), (p[1].parse().ok()?, p[2].parse().ok()?, p[3].parse().ok()?));
    }
    Some(((target, date), rows))
}

enum Obs {
    Value(Multi),
    Err(String),
}

impl Check for C09 {
    fn id(&self) -> &'static str {
        "C09"
    }
    fn cases(&self, tier: Tier) -> u64 {
        tier.pick(6_000, 1_500_000)
    }
    fn run(&self, ctx: &Ctx, idx: u64, rec: &mut Recorder) {
        let mut rng = Rng::for_case(ctx.seed, "C09", idx);
        let db_pct = *rng.pick(&[0u64, 30, 30, 60]);
        let sc = PriceScenario::generate(&mut rng, db_pct);
        let Some(model) = PriceModel::from_events(&sc.events) else {
            rec.skip();
            return;
        };
        let ledger = sc.ledger_text();
        let dir = ctx.scratch.join(format!("c09-{}", idx));
        let _ = std::fs::create_dir_all(&dir);
        let db_path = dir.join("prices.db");
        let has_db = !sc.price_db.is_empty();
        if has_db {
            let _ = std::fs::write(&db_path, &sc.price_db);
        }
        // a commodity that is neither declared nor mentioned by any event is unknown to okane
        // ("commodity not found"); that is not a conversion question
        let known: Vec<String> = sc.commodities.iter().filter(|c| sc.declared.contains(c) || model.commodities.contains(*c)).cloned().collect();
        let mut queries: Vec<(String, String, NaiveDate)> = Vec::new();
        for a in &known {
            for b in &known {
                for d in sc.query_dates() {
                    queries.push((a.clone(), b.clone(), d));
                }
            }
        }
        rng.shuffle(&mut queries);
        queries.truncate(ctx.tier.pick(160, 240));
        let witness_input = format!("=== ledger\n{}=== price db\n{}", ledger, sc.price_db);
        rec.op("process+eval(-X)", &witness_input);
        let files = vec![(ops::ROOT.to_string(), ledger.clone())];
        okane_core::verif::set_enabled(true);
        let _ = okane_core::verif::drain();
        let qs = queries.clone();
        let observed = guarded(rec, || {
            ops::with_processed(&files, ops::ROOT, if has_db { Some(db_path.as_path()) } else { None }, |rctx, r| match r {
                Err(e) => Err(ops::render_error(e)),
                Ok(l) => Ok(qs
                    .iter()
                    .map(|(a, b, d)| match l.eval(rctx, &format!("1 {}", a), &query::EvalContext { date: *d, exchange: Some(b.clone()) }) {
                        Ok(v) => Obs::Value(to_multi(&v)),
                        Err(e) => Obs::Err(ops::render_error(&e)),
                    })
                    .collect::<Vec<_>>()),
            })
        });
        let events = okane_core::verif::drain();
        okane_core::verif::set_enabled(false);
        let Some(observed) = observed else {
            let _ = std::fs::remove_dir_all(&dir);
            return;
        };
        let wit = |extra: serde_json::Value| json!({"ledger": ledger, "price_db": sc.price_db, "detail": extra});
        let observed = match observed {
            Ok(o) => o,
            Err(e) => {
                rec.violation("price-ledger-rejected", "process", &format!("a ledger of single-event price transactions was rejected: {}", e.lines().next().unwrap_or("")), wit(json!({"error": e})));
                let _ = std::fs::remove_dir_all(&dir);
                return;
            }
        };
        rec.nontrivial(&witness_input);
        for f in &sc.forms {
            rec.count(&format!("event-form:{}", f));
        }
        let mut tables: BTreeMap<(String, NaiveDate), BTreeMap<String, (usize, usize, i64)>> = BTreeMap::new();
        for (t, d) in &events {
            if *t == "price.table" {
                if let Some((k, rows)) = parse_table(d) {
                    tables.insert(k, rows);
                }
            }
        }
        rec.count_n("hook:price.table", tables.len() as u64);
        for ((a, b, d), obs) in queries.iter().zip(observed.iter()) {
            let conv = model.convert(a, b, *d);
            let q = format!("1 {} -> {} as of {}", a, b, d);
            match (&conv, obs) {
                (Conversion::ModelOverflow, _) => {
                    rec.skip();
                }
                (Conversion::Identity, Obs::Value(m)) => {
                    rec.count("query:identity");
                    let want: Multi = [(a.clone(), Q::ONE)].into_iter().collect();
                    if *m != want {
                        rec.violation("identity-conversion-changed-amount", "identity", &format!("{} gave {}", q, crate::model::book::multi_to_string(m)), wit(json!({"query": q})));
                        break;
                    }
                }
                (Conversion::Identity, Obs::Err(e)) => {
                    rec.violation("identity-conversion-failed", "identity", &format!("{} failed: {}", q, e), wit(json!({"query": q})));
                    break;
                }
                (Conversion::NoChain, Obs::Err(_)) => rec.count("query:no-chain-rejected"),
                (Conversion::NoChain, Obs::Value(m)) => {
                    let future = model.convert(a, b, NaiveDate::from_ymd_opt(2099, 1, 1).unwrap());
                    let class = if matches!(future, Conversion::NoChain) { "disconnected" } else { "only-later-prices" };
                    rec.violation("converted-without-chain", class, &format!("{} gave {} although no price chain exists on or before that date", q, crate::model::book::multi_to_string(m)), wit(json!({"query": q})));
                    break;
                }
                (Conversion::Chains { admissible, .. }, Obs::Err(e)) => {
                    rec.violation("conversion-failed-with-chain", &format!("steps={}", admissible[0].dist.hops.min(4)), &format!("{} failed ({}) although a chain exists: {}", q, e.lines().next().unwrap_or(""), chain_desc(&admissible[0])), wit(json!({"query": q})));
                    break;
                }
                (Conversion::Chains { admissible, strict }, Obs::Value(m)) => {
                    rec.count(&format!("query:chain-steps-{}", admissible[0].dist.hops.min(5)));
                    if admissible.iter().map(|c| c.rates.len()).sum::<usize>() > 1 {
                        rec.count("query:several-admissible-rates");
                    }
                    let got = if m.len() == 1 { m.get(b).copied() } else { None };
                    let ok = match got {
                        Some(g) => admissible.iter().any(|c| c.rates.iter().any(|r| close(g, *r))),
                        None => false,
                    };
                    if !ok {
                        // classify: which rule does the observed rate correspond to?
                        let class = classify_wrong_rate(&model, a, b, *d, got, &admissible[0]);
                        rec.violation(
                            "wrong-rate",
                            &class,
                            &format!("{} gave {}; expected {}", q, crate::model::book::multi_to_string(m), admissible.iter().map(chain_desc).collect::<Vec<_>>().join(" or ")),
                            wit(json!({"query": q, "expected_chains": admissible.iter().map(chain_desc).collect::<Vec<_>>() })),
                        );
                        break;
                    }
                    // secondary clause on the hook's distance triple
                    if let Some(rows) = tables.get(&(b.clone(), *d)) {
                        if let Some((l, h, s)) = rows.get(a) {
                            let want = &strict[0];
                            if (*l, *h) != (want.dist.ledger_hops, want.dist.hops) || !admissible.iter().any(|c| c.max_stale == *s) {
                                rec.violation(
                                    "hook-distance",
                                    &format!("steps={}", want.dist.hops.min(4)),
                                    &format!("{}: rate table records distance (ledger {}, steps {}, stale {} d), the best chain is {}", q, l, h, s, chain_desc(want)),
                                    wit(json!({"query": q})),
                                );
                                break;
                            }
                            rec.count("hook:distance-agrees");
                        }
                    }
                }
            }
        }
        // a sample through the real binary
        if rng.chance(ctx.tier.pick(40, 10), 1000) && !rec.has_violation() {
            let lp = dir.join("l.ledger");
            let _ = std::fs::write(&lp, &ledger);
            for (a, b, d) in queries.iter().take(4) {
                let ds = d.to_string();
                let lps = lp.to_string_lossy().into_owned();
                let dbs = db_path.to_string_lossy().into_owned();
                let mut argv: Vec<&str> = vec!["primitive", "eval", "--date", &ds, "-X", b, "-f", &lps];
                if has_db {
                    argv.push("--price-db");
                    argv.push(&dbs);
                }
                let arg = format!("1 {}", a);
                argv.push("--");
                argv.push(&arg);
                rec.op("okane primitive eval -X (cli)", &witness_input);
                let Ok(res) = cli::run_okane(&ctx.cli_a, &argv, &dir) else { continue };
                rec.count("cli:eval-runs");
                let conv = model.convert(a, b, *d);
                let q = format!("okane primitive eval --date {} -X {} 1 {}", d, b, a);
                match conv {
                    Conversion::NoChain => {
                        if res.ok() {
                            rec.violation("converted-without-chain", "cli", &format!("{} printed {}", q, res.stdout.trim()), wit(json!({"query": q})));
                        }
                    }
                    Conversion::Identity | Conversion::Chains { .. } => {
                        let got = crate::checks::book::parse_inline_amount(res.stdout.trim());
                        let ok = match (&conv, &got) {
                            (Conversion::Identity, Some(m)) => m.get(a) == Some(&Q::ONE) && m.len() == 1,
                            (Conversion::Chains { admissible, .. }, Some(m)) => m.len() == 1 && m.get(b).map(|g| admissible.iter().any(|c| c.rates.iter().any(|r| close(*g, *r)))).unwrap_or(false),
                            _ => false,
                        };
                        if !res.ok() || !ok {
                            rec.violation("wrong-rate", "cli", &format!("{}: exit {:?}, stdout `{}`", q, res.code, res.stdout.trim()), wit(json!({"query": q, "stderr": res.stderr})));
                        }
                    }
                    Conversion::ModelOverflow => {}
                }
            }
        }
        if rec.wants_sample() {
            rec.sample(json!({"ledger": ledger, "price_db": sc.price_db, "queries": queries.len()}));
        }
        let _ = std::fs::remove_dir_all(&dir);
    }
    fn rule(&self) -> String {
        "Each case: 3-5 commodities, 3-12 price events on 1-6 dates, each written as one transaction yielding exactly that event (cost @, total cost @@, lot {} / {{}}, \
         implied two-commodity exchange; quantities of either sign) or as a price-DB `P` line (0/30/60% of the events), sparse-graph bias so that 2-4 step chains, \
         cycles, disconnected parts, parallel ledger and price-DB prices for a pair and several prices on one date occur. Queries: up to 160 (quick) of all ordered \
         pairs (A, B) x {d-1, d, d+1 for each event date}, shuffled, all on one Ledger value (shared rate-table cache). Oracle: harness/src/model/price.rs keeps per \
         unordered pair the price-DB records if any, else the ledger ones; step rate = records of the most recent date <= D (a set when several share it), reverse = \
         reciprocal; all simple chains enumerated; optimum by (ledger steps, steps, staleness). Observed Ledger::eval(\"1 A\", date D, exchange B) must equal (1e-18 \
         relative) a rate of an optimal chain, be exactly 1 A for A = B, and fail when no chain exists. Secondary: the hook's distance triple for A equals the \
         optimum. A sample goes through `okane primitive eval --date -X [--price-db]`. Non-trivial = processed scenario; distinct by ledger + price DB."
            .to_string()
    }
    fn assumptions(&self) -> Vec<String> {
        vec![
            "'least stale' for a chain is accepted under both readings (stalest step, or sum over steps); the hook clause uses the stalest-step reading the code itself records".into(),
            "when several optimal chains or several same-date records exist, any of their rates is accepted (which one is C13's business)".into(),
            "rates are compared with 1e-18 relative tolerance (reciprocals and products are rounded to 28 places by the code)".into(),
        ]
    }
    fn min_nontrivial(&self, tier: Tier) -> u64 {
        tier.pick(3_000, 100_000)
    }
    fn chunk(&self, tier: Tier) -> u64 {
        tier.pick(100, 1000)
    }
}

fn classify_wrong_rate(model: &PriceModel, a: &str, b: &str, d: NaiveDate, got: Option<Q>, best: &Chain) -> String {
    let Some(g) = got else { return format!("not-a-single-amount|steps={}", best.dist.hops.min(4)) };
    // reciprocal of an expected rate?
    if best.rates.iter().any(|r| Q::ONE.div(*r).map(|x| close(g, x)).unwrap_or(false)) && !best.rates.iter().any(|r| close(*r, Q::ONE)) {
        return format!("reciprocal|steps={}", best.dist.hops.min(4));
    }
    // the rate of some other date (earlier / later record)?
    for delta in [-400i64, -30, -14, -7, -3, -2, -1, 1, 2, 3, 7, 14, 30, 400] {
        if let Conversion::Chains { admissible, .. } = model.convert(a, b, d + chrono::Duration::days(delta)) {
            if admissible.iter().any(|c| c.rates.iter().any(|r| close(g, *r))) {
                return format!("rate-of-{}-date|steps={}", if delta < 0 { "an-earlier" } else { "a-later" }, best.dist.hops.min(4));
            }
        }
    }
    format!("other|steps={}", best.dist.hops.min(4))
}
