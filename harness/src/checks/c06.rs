//! C06 — every input yields output or a diagnostic: no crash, no hang.
//! The oracle is the engine itself: a panic (including the integer-overflow and
//! debug_assert traps of the `verif` profile), an abort, a stack overflow or a per-case
//! CPU-limit signal is the violation; `Ok` and `Err` are both fine.

use okane_core::parse::{parse_ledger, ParseOptions};
use okane_core::report::query;
use serde_json::json;

use crate::checks::c05::format_text;
use crate::cli;
use crate::engine::{guarded, Check, Ctx, Recorder, Tier};
use crate::gen::syntax::{FeatSet, SynGen};
use crate::ops;
use crate::rng::{fnv64, Rng};

pub struct C06;

/// Runs every in-process operation of the property on one text. Returns a short outcome tag.
pub fn exercise_text(rec: &mut Recorder, text: &str, with_report: bool) {
    exercise_text_tagged(rec, text, with_report, "")
}

/// `tag` is appended to the operation labels (and so to hard-crash signatures) of one family.
pub fn exercise_text_tagged(rec: &mut Recorder, text: &str, with_report: bool, tag: &str) {
    rec.op(&format!("parse_ledger{}", tag), text);
    let parsed = guarded(rec, || {
        let r: Result<Vec<_>, _> =
            parse_ledger::<okane_core::syntax::plain::Ident>(&ParseOptions::default(), text).collect();
        match r {
            Ok(v) => Ok(v.len()),
            Err(e) => Err(e.to_string().len()),
        }
    });
    match parsed {
        Some(Ok(_)) => rec.count("parse:ok"),
        Some(Err(_)) => rec.count("parse:err"),
        None => return,
    }
    rec.op(&format!("format{}", tag), text);
    match guarded(rec, || format_text(text)) {
        Some(Ok(_)) => rec.count("format:ok"),
        Some(Err(_)) => rec.count("format:err"),
        None => return,
    }
    if with_report {
        let files = vec![(ops::ROOT.to_string(), text.to_string())];
        exercise_report(rec, &files, ops::ROOT, &format!("process{}", tag));
    }
}

/// `report::process` + every query on an in-memory file tree.
pub fn exercise_report(rec: &mut Recorder, files: &[(String, String)], root: &str, label: &str) {
    let joined: String = files
        .iter()
        .map(|(p, c)| format!("=== {}\n{}", p, c))
        .collect::<Vec<_>>()
        .join("\n");
    rec.op(label, &joined);
    let r = guarded(rec, || {
        ops::with_processed(files, root, None, |ctx, r| match r {
            Err(e) => {
                let _ = ops::render_error(e);
                "err"
            }
            Ok(ledger) => {
                let mut commodities: Vec<String> = Vec::new();
                let mut dates = Vec::new();
                for t in ledger.transactions() {
                    dates.push(t.date);
                }
                if let Ok(b) = ledger.balance(ctx, &query::BalanceQuery::default()) {
                    for (_, amt) in b.into_owned().into_vec() {
                        let _ = amt.as_inline_display().to_string();
                        for (c, _) in ops::amount_pairs(&amt) {
                            if !commodities.contains(&c) {
                                commodities.push(c);
                            }
                        }
                    }
                }
                dates.sort();
                dates.dedup();
                let mid = dates.get(dates.len() / 2).copied();
                let _ = ledger.balance(
                    ctx,
                    &query::BalanceQuery {
                        conversion: None,
                        date_range: query::DateRange {
                            start: mid,
                            end: dates.last().copied(),
                        },
                    },
                );
                for c in commodities.iter().take(4) {
                    if let Some(target) = ctx.commodity(c) {
                        for strategy in [
                            query::ConversionStrategy::Historical,
                            query::ConversionStrategy::UpToDate {
                                now: mid.unwrap_or(chrono::NaiveDate::from_ymd_opt(2024, 1, 1).unwrap()),
                            },
                        ] {
                            let r = ledger.balance(
                                ctx,
                                &query::BalanceQuery {
                                    conversion: Some(query::Conversion { strategy, target }),
                                    date_range: query::DateRange::default(),
                                },
                            );
                            if let Err(e) = r {
                                let _ = e.to_string();
                            }
                        }
                    }
                    let _ = ledger.eval(
                        ctx,
                        &format!("(1 {} * 2)", c),
                        &query::EvalContext {
                            date: mid.unwrap_or(chrono::NaiveDate::from_ymd_opt(2024, 1, 1).unwrap()),
                            exchange: commodities.first().cloned(),
                        },
                    );
                }
                let posts = ledger.postings(ctx, &query::PostingQuery { account: None });
                let mut running = okane_core::report::Amount::default();
                for p in posts {
                    running += p.amount.clone();
                    let _ = running.as_inline_display().to_string();
                }
                "ok"
            }
        })
    });
    match r {
        Some("ok") => rec.count(&format!("{}:ok", label)),
        Some(_) => rec.count(&format!("{}:err", label)),
        None => {}
    }
    rec.op("accounts", &joined);
    let _ = guarded(rec, || {
        let arena = bumpalo::Bump::new();
        let mut ctx = okane_core::report::ReportContext::new(&arena);
        let loader = ops::fake_loader(files, root);
        match okane_core::report::accounts(&mut ctx, loader) {
            Ok(v) => v.len(),
            Err(e) => ops::render_error(&e).len(),
        }
    });
}

fn gen_text(seed: u64, idx: u64, n: usize) -> String {
    let rng = Rng::for_case(seed, "C06-text", idx);
    let mut g = SynGen::new(rng, FeatSet::ALL);
    g.allow_include = false;
    g.file(n).text
}

/// A small semantically meaningful ledger (balances, costs, assertions) as a mutation seed.
fn gen_semantic(rng: &mut Rng) -> String {
    let nums = ["1", "10.00", "1,234.56", "0.5", "100", "3"];
    let mut s = String::new();
    if rng.chance(1, 2) {
        s.push_str("commodity USD\n    format 1,000.00 USD\n    alias $\n\n");
    }
    if rng.chance(1, 3) {
        s.push_str("account Assets:Bank\n    alias Bank\n\n");
    }
    let n = 1 + rng.usize(4);
    for i in 0..n {
        let a = rng.pick(&nums).to_string();
        s.push_str(&format!("2024/0{}/1{} * (c{}) Shop {}\n", 1 + i, i, i, i));
        match rng.below(6) {
            0 => s.push_str(&format!("    Expenses:Food    {} USD\n    Assets:Bank\n", a)),
            1 => s.push_str(&format!("    Assets:Broker    {} AAPL @ {} USD\n    Assets:Bank\n", a, rng.pick(&nums))),
            2 => s.push_str(&format!("    Assets:Broker    {} AAPL {{{} USD}} [2024/01/01] (lot)\n    Assets:Bank\n", a, rng.pick(&nums))),
            3 => s.push_str(&format!("    Assets:Bank    {} USD = {} USD\n    Equity\n", a, a)),
            4 => s.push_str(&format!("    Assets:Cash    = {} EUR\n    Equity\n", a)),
            _ => s.push_str(&format!("    Assets:Bank    {} USD\n    Assets:EUR    -{} EUR\n", a, rng.pick(&nums))),
        }
        s.push('\n');
    }
    s
}

const DICT: &[&str] = &[
    "@@", "@", "{{", "}}", "{", "}", "(", ")", "[", "]", "=", ";", ":", "::", "include ", "apply tag ", "end apply tag",
    "account ", "commodity ", "alias ", "format ", "note ", "0", "0.00", "-0", "1", "9", ",", ".", "-", "+", "*", "/",
    "\r", "\n", "\r\n", "\t", " ", "  ", "USD", "EUR", "漢", "\u{301}", "\u{200b}", "P 2024/01/01 USD 0 EUR", "2024/13/45", "#",
    "%", "|", "!", "\u{feff}", "\u{0}",
];

fn char_positions(s: &str) -> Vec<usize> {
    let mut v: Vec<usize> = s.char_indices().map(|(i, _)| i).collect();
    v.push(s.len());
    v
}

fn mutate(rng: &mut Rng, text: &str) -> String {
    let mut s = text.to_string();
    let k = 1 + rng.usize(3);
    for _ in 0..k {
        let pos = char_positions(&s);
        let p = pos[rng.usize(pos.len())];
        match rng.below(5) {
            0 => s.insert_str(p, *rng.pick(DICT)),
            1 => {
                // delete a run of 1-4 chars
                let q = pos[std::cmp::min(pos.len() - 1, pos.iter().position(|x| *x == p).unwrap() + 1 + rng.usize(4))];
                s.replace_range(p..q, "");
            }
            2 => {
                // duplicate a slice
                let q = pos[std::cmp::min(pos.len() - 1, pos.iter().position(|x| *x == p).unwrap() + 1 + rng.usize(12))];
                let piece = s[p..q].to_string();
                s.insert_str(p, &piece);
            }
            3 => {
                // swap two lines
                let mut lines: Vec<&str> = s.split('\n').collect();
                if lines.len() > 2 {
                    let a = rng.usize(lines.len());
                    let b = rng.usize(lines.len());
                    lines.swap(a, b);
                }
                s = lines.join("\n");
            }
            _ => {
                // replace a number by a zero or an extreme but representable value
                let repl = *rng.pick(&["0", "0.00", "-0", "0.001", "99999.99", "-99999.999"]);
                if let Some((start, _)) = s.char_indices().filter(|(_, c)| c.is_ascii_digit()).nth(rng.usize(1 + s.chars().filter(|c| c.is_ascii_digit()).count().saturating_sub(1))) {
                    let end = s[start..]
                        .char_indices()
                        .find(|(_, c)| !(c.is_ascii_digit() || *c == ',' || *c == '.'))
                        .map(|(i, _)| start + i)
                        .unwrap_or(s.len());
                    // do not touch dates (a digit run followed by '/' or preceded by '/')
                    let is_date = s[end..].starts_with('/') || s[..start].ends_with('/');
                    if !is_date {
                        s.replace_range(start..end, repl);
                    }
                }
            }
        }
        if s.len() > 60_000 {
            break;
        }
    }
    s
}

fn random_string(rng: &mut Rng) -> String {
    let n = rng.usize(120);
    let alphabet: Vec<char> = "0123456789 \t\n\r;:#%|*!()[]{}@=,.-+/ABab漢é\u{301}\u{1F600}".chars().collect();
    let mut s = String::new();
    if rng.chance(1, 2) {
        s.push_str(*rng.pick(&["2024/01/01", "2024/01/01 x\n ", "account ", "commodity ", "include ", "apply tag ", "end ", "; ", "P "]));
    }
    for _ in 0..n {
        if rng.chance(1, 30) {
            // arbitrary Unicode scalar
            let c = char::from_u32(rng.below(0x11_0000) as u32).unwrap_or('\u{fffd}');
            s.push(c);
        } else {
            s.push(*rng.pick(&alphabet));
        }
    }
    s
}

/// Numbers wherever a number is accepted, from a pool of zeros and large-but-safe values.
fn zero_slots(rng: &mut Rng) -> String {
    const POOL: &[&str] = &["0", "0.00", "-0", "0 ", "1", "-1", "0.005", "9,999.99", "0.01", "-0.01", "0,000.05", "-0,000.001", "0,000.00", "000,000", "0,000,000.5"];
    const TEMPLATES: &[&str] = &[
        "2024/01/01 t\n    A    {} USD\n    B    {} USD\n",
        "2024/01/01 t\n    A    {} USD\n    B    {} EUR\n",
        "2024/01/01 t\n    A    {} USD @ {} EUR\n    B    {} EUR\n",
        "2024/01/01 t\n    A    {} USD @@ {} EUR\n    B    {} EUR\n",
        "2024/01/01 t\n    A    {} USD {{{} EUR}}\n    B\n",
        "2024/01/01 t\n    A    {} USD {{{{{} EUR}}}} @ {} EUR\n    B\n",
        "2024/01/01 t\n    A    {} USD = {} USD\n    B\n",
        "2024/01/01 t\n    A    = {} USD\n    B\n",
        "2024/01/01 t\n    A    = {}\n    B\n",
        "2024/01/01 t\n    A    ({} USD / {})\n    B\n",
        "2024/01/01 t\n    A    ({} * {} USD)\n    B\n",
        "2024/01/01 t\n    A    ({} USD - {} USD)\n    B    {} EUR\n",
        "commodity USD\n    format {} USD\n\n2024/01/01 t\n    A    {} USD\n    B    {} USD\n",
        "2024/01/01 t\n    A    {} USD\n    B    {} EUR\n    C    {} JPY\n",
        "2024/01/01 t\n    A    {}\n    B    {} USD\n",
        "2024/01/01 t\n    A    {} USD\n    B    {} EUR\n\n2024/01/02 u\n    A    = {}\n    B\n",
    ];
    let mut out = String::new();
    let k = 1 + rng.usize(3);
    for _ in 0..k {
        let t = rng.pick(TEMPLATES);
        let mut parts = t.split("{}");
        let mut s = parts.next().unwrap().to_string();
        for p in parts {
            s.push_str(rng.pick(POOL).trim_end());
            s.push_str(p);
        }
        out.push_str(&s.replace("{{", "{").replace("}}", "}"));
        out.push('\n');
    }
    // the diagnostics these ledgers provoke are also rendered for CRLF files and next to
    // multi-byte account names
    if rng.chance(1, 4) {
        out = out.replace("    A ", "    資産:銀行 ").replace("    B", "    負債:カード");
    }
    if rng.chance(1, 3) {
        out = out.replace('\n', "\r\n");
    }
    out
}

/// Path of `to` as written in an include line of file `from` (both relative to the tree root),
/// in one of several spellings: plain relative, `./`-prefixed, with a `..` detour through the
/// including file's own directory (so that cycles exist whose every edge contains `..`), absolute.
fn spell_include(from: &str, to: &str, style: u64) -> String {
    let from_dir: Vec<&str> = from.split('/').rev().skip(1).collect::<Vec<_>>().into_iter().rev().collect();
    let to_parts: Vec<&str> = to.split('/').collect();
    let mut common = 0;
    while common < from_dir.len() && common + 1 < to_parts.len() && from_dir[common] == to_parts[common] {
        common += 1;
    }
    let mut rel: Vec<String> = Vec::new();
    for _ in common..from_dir.len() {
        rel.push("..".into());
    }
    for p in &to_parts[common..] {
        rel.push(p.to_string());
    }
    let rel = rel.join("/");
    match style {
        0 => rel,
        1 => format!("./{}", rel),
        2 => match from_dir.last() {
            Some(own) => format!("../{}/{}", own, rel),
            None => format!("sub/../{}", rel),
        },
        3 => format!("/mem/{}", to),
        _ => {
            // the same target written as a pattern: one letter of the file name becomes `?`
            match rel.rfind('/').map(|p| p + 1).or(Some(0)) {
                Some(p) if rel.len() > p + 2 => format!("{}?{}", &rel[..p + 1], &rel[p + 2..]),
                _ => rel,
            }
        }
    }
}

/// A ledger with date-shaped tokens (digits and separators, 5-12 bytes, mostly *not* laid out
/// yyyy/mm/dd) in every position a date can appear.
fn date_shapes(rng: &mut Rng) -> String {
    let mut tok = |rng: &mut Rng| -> String {
        let sep = *rng.pick(&['/', '-', '/', '.']);
        let widths: [usize; 3] = match rng.below(6) {
            0 => [4, 2, 2],
            1 => [5, 1, 2],
            2 => [4, 1, 3],
            3 => [4, 3, 1],
            4 => [3, 2, 3],
            _ => [1 + rng.usize(6), 1 + rng.usize(4), 1 + rng.usize(6)],
        };
        let mut t = String::new();
        for (i, w) in widths.iter().enumerate() {
            if i > 0 {
                t.push(if rng.chance(1, 8) { *rng.pick(&['/', '-']) } else { sep });
            }
            for k in 0..*w {
                let d = if i == 0 && k < 4 { [2, 0, 2, 4][k] } else { rng.below(10) as usize };
                t.push((b'0' + d as u8) as char);
            }
        }
        t
    };
    let (d1, d2, d3, d4) = (tok(rng), tok(rng), tok(rng), tok(rng));
    match rng.below(4) {
        0 => format!("{} shop\n    A    1 USD\n    B\n", d1),
        1 => format!("2024/01/05={} shop\n    A    1 USD\n    B\n", d2),
        2 => format!("2024/01/05 shop\n    A    1 AAPL {{10 USD}} [{}]\n    B\n", d3),
        _ => format!("{}={} shop\n    A    1 AAPL [{}] @ 2 USD\n    B\n\n{} next\n    A    1 USD\n    B\n", d1, d2, d3, d4),
    }
}

fn include_graph(rng: &mut Rng) -> (Vec<(String, String)>, String) {
    let names = ["root.ledger", "a.ledger", "sub/b.ledger", "sub/c.ledger", "sub/deep/d.ledger", "other/e.ledger"];
    let n = 2 + rng.usize(5);
    let junk = [
        "sub/*.ledger", "*.ledger", "missing.ledger", "sub/**/*.ledger", "**/*.ledger", "[", "", "sub/", "*", "../*/*.ledger",
        "../missing/../a.ledger", "other/../sub/?.ledger",
    ];
    let mut files = Vec::new();
    for (i, name) in names.iter().enumerate().take(n) {
        let mut content = String::new();
        let k = rng.usize(4);
        for j in 0..k {
            if rng.chance(1, 2) {
                let target = if rng.chance(1, 4) {
                    rng.pick(&junk).to_string()
                } else {
                    let to = names[rng.usize(n)];
                    spell_include(name, to, rng.below(5))
                };
                content.push_str(&format!("include {}\n\n", target));
            } else {
                content.push_str(&format!("2024/01/0{} f{} t{}\n    A    {} USD\n    B\n\n", 1 + j, i, j, 1 + j));
            }
        }
        files.push((format!("/mem/{}", name), content));
    }
    (files, "/mem/root.ledger".to_string())
}

fn deep_nesting(depth: usize, kind: u64) -> String {
    match kind {
        0 => format!("2024/01/01 t\n    A    {}1 USD{}\n    B\n", "(".repeat(depth), ")".repeat(depth)),
        1 => format!("2024/01/01 t\n    A    {}1 USD{}\n    B\n", "(-".repeat(depth), ")".repeat(depth)),
        2 => format!("2024/01/01 t\n    A    (1 USD{})\n    B\n", " + 1 USD".repeat(depth)),
        3 => format!("2024/01/01 t\n    A    1 USD @ {}1 EUR{}\n    B\n", "(".repeat(depth), ")".repeat(depth)),
        // binary operations nested to the right, every left operand a bare number (printing and
        // evaluating them must stay linear in the depth)
        _ => format!("2024/01/01 t\n    A    {}100 USD{}\n    B\n", "(1.01 * ".repeat(depth), ")".repeat(depth)),
    }
}

const DEPTHS: &[usize] = &[1, 8, 64, 200, 1000, 3000, 8000, 16000, 30000];
/// depths of the right-nested operator chains (`(1.01 * (1.01 * ( ... 100 USD)))`): work that doubles per
/// level is minutes at 28 and hours at 34
const RIGHT_NESTED: &[usize] = &[8, 16, 24, 30, 34, 40, 60, 200];

struct Plan {
    prefix_gen: u64,
    prefix_seed: u64,
    mutate: u64,
    random: u64,
    zeros: u64,
    includes: u64,
    deep: u64,
    prices: u64,
    large: u64,
    cli: u64,
}

/// A ledger whose transactions span a price graph with many equally good conversion chains
/// (diamond chains, grids, cliques, long chains, random graphs), all rates recorded on one or a
/// few days: the work of `balance -X` must stay polynomial in the number of prices.
fn price_graph(rng: &mut Rng) -> (String, &'static str) {
    let name = |i: usize| format!("C{}{}", (b'a' + (i / 26) as u8) as char, (b'a' + (i % 26) as u8) as char);
    let mut edges: Vec<(usize, usize)> = Vec::new();
    let shape = match rng.below(5) {
        0 => {
            // k diamonds in a row: node i -> {mid a, mid b} -> node i+1
            let k = 5 + rng.usize(41);
            for i in 0..k {
                let (n0, a, b, n1) = (3 * i, 3 * i + 1, 3 * i + 2, 3 * i + 3);
                edges.extend([(n0, a), (a, n1), (n0, b), (b, n1)]);
            }
            "diamond-chain"
        }
        1 => {
            let n = 5 + rng.usize(10);
            for i in 0..n {
                for j in i + 1..n {
                    edges.push((i, j));
                }
            }
            "clique"
        }
        2 => {
            let n = 30 + rng.usize(171);
            for i in 0..n {
                edges.push((i, i + 1));
            }
            "chain"
        }
        3 => {
            let (w, h) = (3 + rng.usize(5), 3 + rng.usize(5));
            for y in 0..h {
                for x in 0..w {
                    if x + 1 < w {
                        edges.push((y * w + x, y * w + x + 1));
                    }
                    if y + 1 < h {
                        edges.push((y * w + x, (y + 1) * w + x));
                    }
                }
            }
            "grid"
        }
        _ => {
            let n = 10 + rng.usize(31);
            let m = 2 * n + rng.usize(2 * n);
            for _ in 0..m {
                let (a, b) = (rng.usize(n), rng.usize(n));
                if a != b {
                    edges.push((a, b));
                }
            }
            "random"
        }
    };
    if rng.chance(1, 3) {
        rng.shuffle(&mut edges);
    }
    let days = 1 + rng.usize(3) as u32;
    let unit_rates = rng.chance(2, 3);
    let mut out = String::new();
    for (k, (a, b)) in edges.iter().enumerate() {
        let rate = if unit_rates { "1".to_string() } else { ["2", "0.5", "1.25", "3", "1"][rng.usize(5)].to_string() };
        let (x, y) = if rng.chance(1, 2) { (a, b) } else { (b, a) };
        out.push_str(&format!(
            "2024/03/{:02} P{}\n    Assets:Trade    1 {} @ {} {}\n    Equity:Trade\n\n",
            1 + (k as u32 % days),
            k,
            name(*y),
            rate,
            name(*x)
        ));
    }
    (out, shape)
}

/// Inputs far beyond the usual size: (0) an ordinary ledger of 40 000 - 120 000 transactions
/// (2 - 8 MB) through the real binary, where every command must finish within the 10 CPU-second
/// limit (okane needs well under a second: the work must stay linear in the file size); (1) single
/// tokens of 70 000 characters (account, commodity, payee, code, note; also on a posting that has
/// only a balance assertion); (2) one expression of 100 000 terms.
fn run_large_case(ctx: &Ctx, rng: &mut Rng, rec: &mut Recorder, i: u64) {
    match i % 4 {
        3 => {
            // a price database of 200 000 - 400 000 lines for one pair, newest first (or oldest first)
            let n = if ctx.tier == Tier::Thorough { 200_000 + rng.usize(200_001) } else { 200_000 };
            let newest_first = rng.chance(3, 4);
            let start = chrono::NaiveDate::from_ymd_opt(1500, 1, 1).unwrap();
            let mut db = String::with_capacity(n * 32);
            for k in 0..n {
                let day = if newest_first { n - 1 - k } else { k };
                let d = start + chrono::Duration::days(day as i64);
                db.push_str(&format!("P {} AAA {}.{:02} BBB\n", d.format("%Y/%m/%d"), 1 + k % 7, k % 100));
            }
            let dir = ctx.scratch.join("c06large");
            let _ = std::fs::create_dir_all(&dir);
            let (lp, dp) = (dir.join("small.ledger"), dir.join("prices.db"));
            let ledger = "2024/01/01 hold\n    Assets:Fund    10 AAA\n    Equity:Opening\n";
            if std::fs::write(&lp, ledger).is_err() || std::fs::write(&dp, &db).is_err() {
                rec.skip();
                return;
            }
            rec.nontrivial(&format!("large-price-db-{}-{}", n, newest_first));
            rec.count_n("large-price-db:lines", n as u64);
            let (l, d) = (lp.to_string_lossy().into_owned(), dp.to_string_lossy().into_owned());
            for cmd in [vec!["balance", "--now", "2024-06-01", "-X", "BBB", "--price-db", d.as_str(), l.as_str()], vec!["balance", "--now", "2024-06-01", "-X", "BBB", "--historical", "--price-db", d.as_str(), l.as_str()]] {
                rec.op("okane balance --price-db (large price database)", &format!("{} price lines, {}", n, if newest_first { "newest first" } else { "oldest first" }));
                let Ok(out) = cli::run_okane(&ctx.cli_a, &cmd, &dir) else {
                    rec.skip();
                    continue;
                };
                let class = out.class();
                rec.count(&format!("cli-large-price-db:{}", class));
                if class != "ok" {
                    let what = match out.signal {
                        Some(sig) if sig == libc::SIGXCPU || sig == libc::SIGKILL => "hang".to_string(),
                        _ => class.clone(),
                    };
                    rec.violation(
                        "cli-abnormal-exit",
                        &format!("balance|{}|large-price-db", what),
                        &format!("okane balance -X with a price database of {} lines ({}) ended with {} (limit: 10 CPU-seconds)", n, if newest_first { "newest first" } else { "oldest first" }, class),
                        json!({"argv": cmd, "lines": n, "newest_first": newest_first, "status": class, "stderr": out.stderr.chars().take(600).collect::<String>()}),
                    );
                }
            }
            let _ = std::fs::remove_file(&dp);
        }
        0 => {
            let n = if ctx.tier == Tier::Thorough { 60_000 + rng.usize(60_001) } else { 40_000 };
            let mut text = String::with_capacity(n * 70);
            for k in 0..n {
                let day = 1 + (k / 1500) % 28;
                let month = 1 + (k / 42_000) % 12;
                text.push_str(&format!("2024/{:02}/{:02} shop {}\n    Expenses:Food:K{}    {}.{:02} USD\n    Assets:Cash\n\n", month, day, k, k % 97, 1 + k % 400, k % 100));
            }
            let dir = ctx.scratch.join("c06large");
            let _ = std::fs::create_dir_all(&dir);
            let path = dir.join("large.ledger");
            if std::fs::write(&path, &text).is_err() {
                rec.skip();
                return;
            }
            rec.nontrivial(&format!("large-ledger-{}", n));
            rec.count_n("large-ledger:transactions", n as u64);
            let p = path.to_string_lossy().into_owned();
            for cmd in [vec!["balance", "--now", "2025-01-01", p.as_str()], vec!["register", "--now", "2025-01-01", p.as_str()], vec!["accounts", p.as_str()], vec!["format", p.as_str()]] {
                rec.op(&format!("okane {} (large ledger)", cmd[0]), &format!("{} generated transactions", n));
                let Ok(out) = cli::run_okane(&ctx.cli_a, &cmd, &dir) else {
                    rec.skip();
                    continue;
                };
                let class = out.class();
                rec.count(&format!("cli-large:{}:{}", cmd[0], class));
                if class != "ok" {
                    let what = match out.signal {
                        Some(sig) if sig == libc::SIGXCPU || sig == libc::SIGKILL => "hang".to_string(),
                        _ if out.stderr.contains("overflowed its stack") => "stack-overflow".to_string(),
                        _ => class.clone(),
                    };
                    rec.violation(
                        "cli-abnormal-exit",
                        &format!("{}|{}|large-ledger", cmd[0], what),
                        &format!("okane {} on an ordinary ledger of {} transactions ({} bytes) ended with {} (limit: 10 CPU-seconds)", cmd[0], n, text.len(), class),
                        json!({"argv": cmd, "transactions": n, "bytes": text.len(), "head": text.chars().take(300).collect::<String>(), "status": class, "stderr": out.stderr.chars().take(600).collect::<String>()}),
                    );
                }
            }
            let _ = std::fs::remove_file(&path);
        }
        1 => {
            let long = |c: char| c.to_string().repeat(70_000);
            let _ = &rng;
            for (k, text) in [
                format!("2024/01/01 p\n    Assets:{}    1 USD\n    B\n", long('a')),
                format!("2024/01/01 p\n    A    1 {}\n    B\n", long('C')),
                format!("2024/01/01 p\n    A    1 USD\n    B    = 0 {}\n", long('C')),
                format!("2024/01/01 {}\n    A    1 USD\n    B\n", long('p')),
                format!("2024/01/01 ({}) p\n    A    1 USD\n    B\n", long('7')),
                format!("2024/01/01 p\n    ; {}\n    A    1 USD\n    B\n    ; :{}:\n", long('n'), long('t')),
            ]
            .iter()
            .enumerate()
            {
                rec.count("large:long-token");
                exercise_text_tagged(rec, text, true, &format!("@long-token-{}", ["account", "commodity", "assertion-only-commodity", "payee", "code", "metadata"][k]));
                rec.nontrivial(&format!("long-token-{}", fnv64(text.as_bytes())));
            }
        }
        _ => {
            let terms = 100_000;
            let text = format!("2024/01/01 p\n    A    (1 USD{})\n    B\n", " + 1 USD".repeat(terms));
            rec.count("large:long-chain");
            exercise_text_tagged(rec, &text, true, "@long-operator-chain");
            rec.nontrivial("long-chain");
        }
    }
}

fn plan(tier: Tier) -> Plan {
    Plan {
        prefix_gen: tier.pick(1_500, 60_000),
        prefix_seed: tier.pick(120, 600),
        mutate: tier.pick(6_000, 400_000),
        random: tier.pick(2_000, 100_000),
        zeros: tier.pick(4_000, 200_000),
        includes: tier.pick(3_000, 100_000),
        deep: (DEPTHS.len() * 4 + RIGHT_NESTED.len()) as u64,
        prices: tier.pick(400, 30_000),
        large: tier.pick(8, 48),
        cli: tier.pick(250, 6_000),
    }
}

fn cli_commands(path: &str) -> Vec<Vec<String>> {
    let p = path.to_string();
    vec![
        vec!["format".into(), p.clone()],
        vec!["balance".into(), "--now".into(), "2024-06-01".into(), p.clone()],
        vec!["balance".into(), "--now".into(), "2024-06-01".into(), "-X".into(), "USD".into(), p.clone()],
        vec!["balance".into(), "--now".into(), "2024-06-01".into(), "-X".into(), "EUR".into(), "--historical".into(), p.clone()],
        vec!["register".into(), "--now".into(), "2024-06-01".into(), p.clone()],
        vec!["accounts".into(), p.clone()],
        vec!["primitive".into(), "flatten".into(), p.clone()],
        vec!["primitive".into(), "eval".into(), "--date".into(), "2024-06-01".into(), "-f".into(), p.clone(), "1".into(), "USD".into()],
    ]
}

fn run_cli_case(ctx: &Ctx, rng: &mut Rng, rec: &mut Recorder, idx: u64) {
    let text = match rng.below(6) {
        0 => gen_text(ctx.seed, idx, 2),
        1 => {
            let base = gen_semantic(rng);
            mutate(rng, &base)
        }
        2 => zero_slots(rng),
        3 => {
            let t = gen_semantic(rng);
            let pos = char_positions(&t);
            t[..pos[rng.usize(pos.len())]].to_string()
        }
        4 => price_graph(rng).0,
        _ => random_string(rng),
    };
    if text.contains('\u{0}') {
        // a NUL byte cannot be passed in argv but is fine in file content.
    }
    let dir = ctx.scratch.join("c06cli");
    let _ = std::fs::create_dir_all(&dir);
    let path = dir.join("in.ledger");
    if std::fs::write(&path, &text).is_err() {
        rec.skip();
        return;
    }
    let use_b = ctx.tier == Tier::Thorough && ctx.cli_b.exists() && rng.chance(1, 2);
    let bin = if use_b { &ctx.cli_b } else { &ctx.cli_a };
    let flavour = if use_b { "release" } else { "checked" };
    rec.nontrivial(&text);
    for cmd in cli_commands(path.to_str().unwrap()) {
        let args: Vec<&str> = cmd.iter().map(|s| s.as_str()).collect();
        rec.op(&format!("okane[{}] {}", flavour, args[..args.len().min(2)].join(" ")), &text);
        let Ok(out) = cli::run_okane(bin, &args, &dir) else {
            rec.skip();
            continue;
        };
        let class = out.class();
        rec.count(&format!("cli:{}:{}", args[0], class));
        if class != "ok" && class != "error" {
            let sig_class = if class.starts_with("signal:") {
                let sig: i32 = class[7..].parse().unwrap_or(0);
                if sig == libc::SIGXCPU || sig == libc::SIGKILL {
                    "hang".to_string()
                } else if out.stderr.contains("overflowed its stack") {
                    "stack-overflow".to_string()
                } else {
                    class.clone()
                }
            } else {
                class.clone()
            };
            let panic_line = out
                .stderr
                .lines()
                .find(|l| l.contains("panicked at"))
                .unwrap_or("")
                .to_string();
            let loc: String = panic_line
                .split("panicked at ")
                .nth(1)
                .map(|s| s.split(':').next().unwrap_or("").to_string())
                .unwrap_or_default();
            rec.violation(
                "cli-abnormal-exit",
                &format!("{}|{}|{}", args[0], sig_class, loc),
                &format!("okane {} ended with {} ({})", args[..args.len().min(2)].join(" "), class, panic_line),
                json!({"argv": cmd, "input": text, "status": class, "stderr": out.stderr.chars().take(1500).collect::<String>(), "flavour": flavour}),
            );
        }
    }
}

impl Check for C06 {
    fn id(&self) -> &'static str {
        "C06"
    }

    fn cases(&self, tier: Tier) -> u64 {
        let p = plan(tier);
        p.prefix_gen + p.prefix_seed + p.mutate + p.random + p.zeros + p.includes + p.deep + p.prices + p.large + p.cli
    }

    fn chunk(&self, tier: Tier) -> u64 {
        tier.pick(100, 1000)
    }

    fn run(&self, ctx: &Ctx, idx: u64, rec: &mut Recorder) {
        let p = plan(ctx.tier);
        let mut rng = Rng::for_case(ctx.seed, "C06", idx);
        let mut i = idx;
        if i < p.prefix_gen {
            // every prefix, cut at every character, of a generated valid ledger
            let text = if rng.chance(1, 2) { gen_text(ctx.seed, idx, 1 + rng.usize(3)) } else { gen_semantic(&mut rng) };
            let positions = char_positions(&text);
            for cut in &positions {
                exercise_text(rec, &text[..*cut], true);
            }
            rec.count_n("prefixes", positions.len() as u64);
            rec.count("family:prefix-generated");
            rec.nontrivial(&text);
            if rec.wants_sample() {
                rec.sample(json!({"family": "every prefix of", "text": text}));
            }
            return;
        }
        i -= p.prefix_gen;
        if i < p.prefix_seed {
            let seeds = ops::seed_ledgers();
            if seeds.is_empty() {
                rec.skip();
                return;
            }
            // slice the concatenated prefix space of all seed files into equal parts
            let total: usize = seeds.iter().map(|(_, s)| char_positions(s).len()).sum();
            let per = total.div_ceil(p.prefix_seed as usize);
            let (lo, hi) = (i as usize * per, std::cmp::min(total, (i as usize + 1) * per));
            let mut k = 0usize;
            let mut h = 0u64;
            for (_, s) in &seeds {
                let pos = char_positions(s);
                for cut in &pos {
                    if k >= lo && k < hi {
                        exercise_text(rec, &s[..*cut], true);
                        h ^= fnv64(s[..*cut].as_bytes()).rotate_left((k % 63) as u32);
                    }
                    k += 1;
                }
            }
            rec.count_n("prefixes", (hi.saturating_sub(lo)) as u64);
            rec.count("family:prefix-testdata");
            if hi > lo {
                rec.nontrivial_hash(h);
            }
            return;
        }
        i -= p.prefix_seed;
        if i < p.mutate {
            let base = if rng.chance(1, 2) { gen_text(ctx.seed, idx, 1 + rng.usize(3)) } else { gen_semantic(&mut rng) };
            for k in 0..12 {
                let m = mutate(&mut rng, &base);
                exercise_text(rec, &m, true);
                rec.nontrivial(&m);
                if rec.wants_sample() && k == 3 {
                    rec.sample(json!({"family": "mutation", "text": m}));
                }
            }
            rec.count_n("mutants", 12);
            rec.count("family:mutation");
            return;
        }
        i -= p.mutate;
        if i < p.random {
            for k in 0..40 {
                let s = random_string(&mut rng);
                exercise_text(rec, &s, k % 4 == 0);
                rec.nontrivial(&s);
            }
            rec.count_n("random-strings", 40);
            rec.count("family:random");
            return;
        }
        i -= p.random;
        if i < p.zeros {
            for k in 0..6 {
                let s = if k == 5 { date_shapes(&mut rng) } else { zero_slots(&mut rng) };
                exercise_text(rec, &s, true);
                rec.nontrivial(&s);
                if rec.wants_sample() && k == 0 {
                    rec.sample(json!({"family": "zeros in number slots", "text": s}));
                }
            }
            rec.count_n("zero-slot-ledgers", 6);
            rec.count("family:zeros");
            return;
        }
        i -= p.zeros;
        if i < p.includes {
            let (files, root) = include_graph(&mut rng);
            exercise_report(rec, &files, &root, "process-include-graph");
            let joined: String = files.iter().map(|(p, c)| format!("=== {}\n{}", p, c)).collect();
            rec.nontrivial(&joined);
            rec.count("family:include-graph");
            if i % 3 == 0 {
                // the same tree on the real file system, through the production loader
                let dir = ctx.scratch.join("c06inc");
                let _ = std::fs::remove_dir_all(&dir);
                for (p, c) in &files {
                    let real = dir.join(p.trim_start_matches("/mem/"));
                    let _ = std::fs::create_dir_all(real.parent().unwrap());
                    let _ = std::fs::write(&real, c);
                }
                let real_root = dir.join("root.ledger");
                rec.op("process-include-graph(real fs)", &joined);
                let r = guarded(rec, || {
                    ops::with_processed_real(&real_root, None, |_ctx, r| match r {
                        Ok(_) => "ok",
                        Err(e) => {
                            let _ = ops::render_error(e);
                            "err"
                        }
                    })
                });
                if let Some(t) = r {
                    rec.count(&format!("real-fs-include:{}", t));
                }
                if i % 30 == 0 {
                    let p = real_root.to_str().unwrap().to_string();
                    for cmd in [vec!["primitive", "flatten", &p], vec!["balance", "--now", "2024-06-01", &p]] {
                        rec.op(&format!("okane {}", cmd[0]), &joined);
                        if let Ok(out) = cli::run_okane(&ctx.cli_a, &cmd, &dir) {
                            let class = out.class();
                            rec.count(&format!("cli-include:{}:{}", cmd[0], class));
                            if class != "ok" && class != "error" {
                                let what = if out.stderr.contains("overflowed its stack") { "stack-overflow".to_string() } else { class.clone() };
                                rec.violation(
                                    "cli-abnormal-exit",
                                    &format!("{}|{}|include-graph", cmd[0], what),
                                    &format!("okane {} on an include graph ended with {}", cmd[0], class),
                                    json!({"files": files, "status": class, "stderr": out.stderr.chars().take(800).collect::<String>()}),
                                );
                            }
                        }
                    }
                }
                let _ = std::fs::remove_dir_all(&dir);
            }
            if rec.wants_sample() {
                rec.sample(json!({"family": "include graph", "files": files}));
            }
            return;
        }
        i -= p.includes;
        if i < p.deep {
            let (depth, kind) = if (i as usize) < DEPTHS.len() * 4 { (DEPTHS[(i / 4) as usize], i % 4) } else { (RIGHT_NESTED[i as usize - DEPTHS.len() * 4], 4) };
            let text = deep_nesting(depth, kind);
            if text.len() <= 64 * 1024 {
                rec.count(&format!("deep:kind{}:depth{}", kind, depth));
                exercise_text_tagged(rec, &text, true, &format!("@deep-nesting-kind{}", kind));
                rec.nontrivial(&format!("deep{}-{}", kind, depth));
            } else {
                rec.skip();
            }
            rec.count("family:deep-nesting");
            return;
        }
        i -= p.deep;
        if i < p.prices {
            let (text, shape) = price_graph(&mut rng);
            rec.count(&format!("price-graph:{}", shape));
            exercise_text_tagged(rec, &text, true, "@price-graph");
            rec.nontrivial(&text);
            rec.count("family:price-graph");
            if rec.wants_sample() {
                rec.sample(json!({"family": "price graph", "shape": shape, "text_head": text.chars().take(400).collect::<String>()}));
            }
            return;
        }
        i -= p.prices;
        if i < p.large {
            run_large_case(ctx, &mut rng, rec, i);
            rec.count("family:large-input");
            return;
        }
        run_cli_case(ctx, &mut rng, rec, idx);
        rec.count("family:cli");
    }

    fn rule(&self) -> String {
        "Families: every prefix (cut at every character) of generated grammatical ledgers and of every *.ledger under /repo/testdata \
         and /repo/cli/tests/testdata; 12 token-level mutants per generated ledger (dictionary insertions, deletions, duplications, \
         line swaps, numbers replaced by zeros / extreme values); random strings over the ledger alphabet with arbitrary Unicode; \
         ledgers with zeros and boundary values in every slot that accepts a number, and with date-shaped tokens of 5-12 bytes (widths other than 4-2-2, mixed separators) as transaction, effective and lot date; include graphs of 2-5 files with self-includes, \
         cycles (also through edges written as patterns), globs, missing and malformed targets on the in-memory and the real file system; nesting depth 1..30000 of \
         parentheses / unary minus / operator chains within 64 KiB, right-nested operator chains of depth 8..200; a third of the zero-slot ledgers with CRLF line ends, a quarter with multi-byte account names; price graphs with many equally good conversion chains (rows of 5-45 \
         diamonds, cliques of 5-14, chains of 30-200, grids up to 7x7, random graphs; all rates on 1-3 days); inputs far beyond the usual size (an ordinary ledger of 40 000-120 000 transactions through the binary, single tokens of 70 000 characters, one expression of 100 000 terms, a price database of 200 000-400 000 lines for one pair); black-box runs of the real binary (format, balance, balance -X, \
         --historical, register, accounts, primitive flatten, primitive eval). Operations per input: parse_ledger (+ Display of \
         the error), FormatOptions::format, report::process on the fake file system followed by balance (plain, ranged, -X \
         up-to-date and historical for up to 4 commodities), eval, postings with running totals, report::accounts. Non-trivial = \
         every generated input; distinct by content hash."
            .to_string()
    }

    fn assumptions(&self) -> Vec<String> {
        vec![
            "numbers are kept within 10^12 with at most 6 decimals so that no product leaves the representable decimal range (the statement's proviso)".into(),
            "a hang is a single case exceeding 20 CPU-seconds (SIGPROF) in a worker, or a run of the binary exceeding 10 CPU-seconds (RLIMIT_CPU); inputs are <= 64 KiB and normally take < 50 ms, the large-input family (several MB) normally takes < 1 s".into(),
            "the harness and CLI flavour A are built with overflow checks and debug assertions; flavour B (plain release) is sampled in the thorough tier".into(),
        ]
    }

    fn min_nontrivial(&self, tier: Tier) -> u64 {
        tier.pick(20_000, 1_000_000)
    }

    fn case_cpu_limit(&self) -> u64 {
        20
    }
}
