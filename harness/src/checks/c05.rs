//! C05 — documented syntax is read; formatting preserves meaning and is idempotent.

use okane_core::format::FormatOptions;
use okane_core::parse::{parse_ledger, ParseOptions};
use okane_core::syntax::plain::LedgerEntry;
use serde_json::json;

use crate::engine::{take_panic, Check, Ctx, Recorder, Tier};
use crate::gen::syntax::{dump_entry, Feat, FeatSet, GenFile, SynGen};
use crate::rng::Rng;

pub struct C05;

#[derive(Debug, Clone)]
pub struct Fail {
    pub clause: &'static str,
    pub detail: String,
}

fn parse_dump(text: &str) -> Result<Vec<String>, String> {
    let r: Result<Vec<_>, _> = parse_ledger::<okane_core::syntax::plain::Ident>(&ParseOptions::default(), text).collect();
    match r {
        Ok(v) => Ok(v.iter().map(|(_, e): &(_, LedgerEntry)| dump_entry(e)).collect()),
        Err(e) => Err(e.to_string()),
    }
}

pub fn format_text(text: &str) -> Result<String, String> {
    let mut out: Vec<u8> = Vec::new();
    let mut r = text.as_bytes();
    match FormatOptions::new().format(&mut r, &mut out) {
        Ok(()) => String::from_utf8(out).map_err(|e| e.to_string()),
        Err(e) => {
            use std::error::Error;
            let mut s = e.to_string();
            if let Some(src) = e.source() {
                s.push_str(": ");
                s.push_str(&src.to_string());
            }
            Err(s)
        }
    }
}

fn first_line(s: &str) -> String {
    s.lines().next().unwrap_or("").chars().take(120).collect()
}

/// The three oracles of C05 on one text with its intended entries. Returns the first failure.
pub fn evaluate(text: &str, intended: &[String]) -> Option<Fail> {
    let r = std::panic::catch_unwind(|| evaluate_inner(text, intended));
    match r {
        Ok(v) => v,
        Err(_) => {
            let p = take_panic();
            let (frame, msg) = p.map(|p| (p.frame, p.message)).unwrap_or(("?".into(), "?".into()));
            Some(Fail {
                clause: "panic",
                detail: format!("{}|{}", frame, msg),
            })
        }
    }
}

fn evaluate_inner(text: &str, intended: &[String]) -> Option<Fail> {
    // (1) the documented syntax is accepted and read as intended
    let parsed = match parse_dump(text) {
        Ok(p) => p,
        Err(e) => {
            return Some(Fail {
                clause: "rejected-documented-syntax",
                detail: e,
            })
        }
    };
    if parsed.len() != intended.len() {
        return Some(Fail {
            clause: "read-differently",
            detail: format!("{} entries read, {} written", parsed.len(), intended.len()),
        });
    }
    for (p, i) in parsed.iter().zip(intended.iter()) {
        if p != i {
            return Some(Fail {
                clause: "read-differently",
                detail: format!("read:\n{}intended:\n{}", p, i),
            });
        }
    }
    // (2) formatting preserves meaning
    let formatted = match format_text(text) {
        Ok(f) => f,
        Err(e) => {
            return Some(Fail {
                clause: "format-fails",
                detail: e,
            })
        }
    };
    let reparsed = match parse_dump(&formatted) {
        Ok(p) => p,
        Err(e) => {
            return Some(Fail {
                clause: "formatted-text-unparseable",
                detail: format!("{}\n--- formatted ---\n{}", e, formatted),
            })
        }
    };
    if reparsed != parsed {
        let mut detail = format!("{} entries before, {} after", parsed.len(), reparsed.len());
        for (a, b) in parsed.iter().zip(reparsed.iter()) {
            if a != b {
                detail = format!("before:\n{}after:\n{}", a, b);
                break;
            }
        }
        return Some(Fail {
            clause: "format-changes-meaning",
            detail,
        });
    }
    // (3) idempotence, byte for byte
    match format_text(&formatted) {
        Ok(f2) => {
            if f2 != formatted {
                let (l1, l2) = formatted
                    .lines()
                    .zip(f2.lines())
                    .find(|(a, b)| a != b)
                    .map(|(a, b)| (a.to_string(), b.to_string()))
                    .unwrap_or_default();
                return Some(Fail {
                    clause: "format-not-idempotent",
                    detail: format!("first pass: `{}` second pass: `{}`", l1, l2),
                });
            }
        }
        Err(e) => {
            return Some(Fail {
                clause: "formatted-text-unparseable",
                detail: e,
            })
        }
    }
    None
}

pub fn generate(seed: u64, idx: u64, mask: FeatSet) -> GenFile {
    let mut rng = Rng::for_case(seed, "C05", idx);
    let n = 1 + rng.usize(5);
    let mut g = SynGen::new(rng, mask);
    g.file(n)
}

/// Greedy minimisation over features under the same oracle clause.
pub fn minimise(seed: u64, idx: u64, clause: &str, start: FeatSet) -> (FeatSet, GenFile) {
    let mut mask = start;
    let mut best = generate(seed, idx, mask);
    let mut budget = 200;
    loop {
        let mut changed = false;
        for f in best.used.list() {
            if budget == 0 {
                break;
            }
            budget -= 1;
            let trial_mask = mask.without(f);
            let trial = generate(seed, idx, trial_mask);
            let intended: Vec<String> = trial.entries.iter().map(dump_entry).collect();
            if let Some(fail) = evaluate(&trial.text, &intended) {
                if fail.clause == clause {
                    mask = trial_mask;
                    best = trial;
                    changed = true;
                }
            }
        }
        if !changed || budget == 0 {
            break;
        }
    }
    (best.used, best)
}

/// Try each entry alone (with the file-level features kept) and return the smallest failing text.
fn isolate_entry(file: &GenFile, clause: &str) -> Option<(String, String)> {
    let crlf = file.used.has(Feat::Crlf);
    let eof = file.used.has(Feat::EofFinalLine);
    for (t, e) in file.entry_texts.iter().zip(file.entries.iter()) {
        let mut text = t.clone();
        if eof {
            while text.ends_with('\n') {
                text.pop();
            }
        }
        if crlf {
            text = text.replace('\n', "\r\n");
        }
        let intended = vec![dump_entry(e)];
        if let Some(f) = evaluate(&text, &intended) {
            if f.clause == clause {
                return Some((text, f.detail));
            }
        }
    }
    None
}

impl Check for C05 {
    fn id(&self) -> &'static str {
        "C05"
    }

    fn cases(&self, tier: Tier) -> u64 {
        tier.pick(60_000, 20_000_000)
    }

    fn run(&self, ctx: &Ctx, idx: u64, rec: &mut Recorder) {
        let file = generate(ctx.seed, idx, FeatSet::ALL);
        let intended: Vec<String> = file.entries.iter().map(dump_entry).collect();
        rec.op("parse+format", &file.text);
        for f in file.used.list() {
            rec.count(&format!("feat:{}", crate::gen::syntax::feat_name(f)));
        }
        rec.count_n("entries", file.entries.len() as u64);
        rec.nontrivial(&file.text);
        if rec.wants_sample() {
            rec.sample(json!({"text": file.text, "features": file.used.names()}));
        }
        let Some(fail) = evaluate(&file.text, &intended) else {
            rec.count("held");
            return;
        };
        // minimise: features first, then a single entry.
        let (features, small) = minimise(ctx.seed, idx, fail.clause, FeatSet::ALL);
        let intended_small: Vec<String> = small.entries.iter().map(dump_entry).collect();
        let small_fail = evaluate(&small.text, &intended_small).unwrap_or(fail.clone());
        let (wit_text, wit_detail) =
            isolate_entry(&small, fail.clause).unwrap_or((small.text.clone(), small_fail.detail.clone()));
        let class = if fail.clause == "panic" {
            let mut d = small_fail.detail.clone();
            d.truncate(160);
            d
        } else {
            format!("features={}", features.names().join("+"))
        };
        rec.count(&format!("violated:{}", fail.clause));
        rec.violation(
            fail.clause,
            &class,
            &format!("{} [{}]: {}", fail.clause, features.names().join("+"), first_line(&wit_detail)),
            json!({"text": wit_text, "detail": wit_detail, "surviving_features": features.names(),
                "original_text": file.text, "original_features": file.used.names()}),
        );
    }

    fn rule(&self) -> String {
        "Texts are produced production by production from doc/syntax.md by harness/src/gen/syntax.rs (1-5 entries: transactions with \
         effective date, state, code, payee, three metadata kinds, lots in every permutation, costs, assertions, parenthesised \
         expressions; top-level comments with every prefix; account/commodity declarations with sub-directives; apply tag / end \
         apply tag; include) with random horizontal whitespace, blank and whitespace-only separators, LF/CRLF, both date separators, \
         Unicode names, and the last line ended by newline or EOF. Narrowings (kept inside the documented language): no ';' in \
         accounts, payees do not start with '*', '!' or '(', comment metadata contains no ':'. Oracles: parse accepts and yields \
         the intended entries (canonical dump, grouping style compared only when there are thousands to group); parse(format(t)) \
         equals parse(t); format(format(t)) equals format(t) byte for byte. Every generated text is counted as non-trivial; \
         distinct = distinct text hashes."
            .to_string()
    }

    fn assumptions(&self) -> Vec<String> {
        vec![
            "doc/syntax.md as read by the generator is the documented syntax; negative literals (-5 USD) are taken as documented although the EBNF omits the sign".into(),
            "meaning is the canonical dump of harness/src/gen/syntax.rs: free text compared after trimming, numbers by mantissa, scale and (>= 1000) grouping".into(),
        ]
    }

    fn min_nontrivial(&self, tier: Tier) -> u64 {
        tier.pick(10_000, 500_000)
    }
}
