//! C18 — Camt053 import conserves the statement.

use serde_json::json;
use std::collections::BTreeMap;

use crate::checks::book::run_code;
use crate::checks::import_common::{q_text, run_import, CamtCase, TreePosting, PARTY_NAMES};
use crate::engine::{guarded, Check, Ctx, Recorder, Tier};
use crate::model::q::Q;
use crate::ops;
use crate::rng::Rng;

pub struct C18;

impl Check for C18 {
    fn id(&self) -> &'static str {
        "C18"
    }
    fn cases(&self, tier: Tier) -> u64 {
        tier.pick(15_000, 800_000)
    }
    fn run(&self, ctx: &Ctx, idx: u64, rec: &mut Recorder) {
        let mut rng = Rng::for_case(ctx.seed, "C18", idx);
        let mut case = CamtCase::generate(&mut rng, PARTY_NAMES);
        // one capture-all rule so that payees are filled from the creditor name where present
        // in one statement in three a catch-all rule assigns an account and flags it pending (the
        // non-pending salary rule after it clears the entries it matches)
        let pending_rule = rng.chance(1, 3);
        case.config_yaml.push_str("rewrite:\n  - matcher:\n      creditor_name: \"(?P<payee>.+)\"\n");
        if pending_rule {
            case.config_yaml.push_str("  - matcher:\n      additional_entry_info: \".\"\n    account: Expenses:Matched\n    pending: true\n");
        }
        case.config_yaml.push_str("  - matcher:\n      domain_sub_family: SALA\n    account: Income:Salary\n");
        // in one statement in three a last rule whose map combines a capturing field with a payee
        // pattern: the fields of one map are taken in field-name order, each seeing the payee as
        // captured so far, so the payee pattern is matched against the entry information
        let and_map_rule = rng.chance(1, 3);
        if and_map_rule {
            case.config_yaml.push_str("  - matcher:\n      additional_entry_info: \"(?P<payee>.+)\"\n      payee: \"^Money Bank$\"\n    account: Expenses:AndMap\n");
        }
        let dir = ctx.scratch.join(format!("c18-{}", idx));
        let Ok((cfg, src)) = case.write(&dir) else {
            rec.skip();
            return;
        };
        let input = format!("=== config\n{}=== {}\n{}", case.config_yaml, case.file_name, case.xml);
        rec.op("import (camt053)", &input);
        let r = guarded(rec, || run_import(&cfg, &case.config_yaml, &src, &case.xml));
        let _ = std::fs::remove_dir_all(&dir);
        let Some(r) = r else { return };
        let batched = case.entries.iter().any(|e| e.details.len() > 1);
        let mixed = case.entries.iter().any(|e| e.details.iter().any(|d| d.credit != e.credit));
        let charges = case.entries.iter().any(|e| e.details.iter().any(|d| d.charge.is_some()));
        let class = format!("{}{}{}{}", if case.new_to_old { "new-to-old" } else { "old-to-new" }, if batched { "|batched" } else { "" }, if mixed { "|mixed-sign-details" } else { "" }, if charges { "|charges" } else { "" });
        let wit = |extra: serde_json::Value| json!({"config": case.config_yaml, "xml": case.xml, "detail": extra});
        let imp = match r {
            Ok(i) => i,
            Err(e) => {
                rec.violation("consistent-statement-rejected", &class, &format!("the importer rejected a consistent statement: {}", e), wit(json!({"error": e})));
                return;
            }
        };
        rec.nontrivial(&input);
        rec.count(&format!("shape:{}", class));
        // expected movements in processing order
        let order = case.processing_order();
        let mut expected: Vec<(Q, chrono::NaiveDate, Option<chrono::NaiveDate>, Option<Q>, Option<String>)> = Vec::new();
        // entry information of the entries booked as one transaction (no details), by position
        let mut plain_entry_info: BTreeMap<usize, String> = BTreeMap::new();
        for e in &order {
            let date = e.value.unwrap_or(e.booking);
            let eff = if date != e.booking { Some(e.booking) } else { None };
            if e.details.is_empty() {
                plain_entry_info.insert(expected.len(), e.additional_info.clone());
                expected.push((e.signed(), date, eff, None, None));
            } else {
                for d in &e.details {
                    // a debit charge is an expense (+), a credited one a rebate (-)
                    let ch = d.charge.map(|c| if d.charge_is_credit { c.neg() } else { c });
                    expected.push((d.signed(), date, eff, ch, d.reference.clone()));
                }
            }
        }
        if imp.txns.len() != expected.len() + 1 {
            rec.violation("transaction-count-differs", &class, &format!("{} entries/details in the statement: expected 1 opening-balance transaction + {} transactions, got {}", expected.len(), expected.len(), imp.txns.len()), wit(json!({"output": imp.text})));
            return;
        }
        let acct_post = |posts: &[TreePosting]| -> Vec<TreePosting> { posts.iter().filter(|p| p.account == case.account).cloned().collect() };
        // opening-balance transaction
        {
            let t = &imp.txns[0];
            let ap = acct_post(&t.posts);
            let ok = ap.len() == 1 && matches!(&ap[0].amount, Some((v, c)) if v.is_zero() && *c == case.currency) && matches!(&ap[0].assertion, Some((v, c)) if *v == case.opening && *c == case.currency);
            if !ok {
                rec.violation("opening-balance-transaction-differs", &class, &format!("first transaction does not assert the opening balance {} {}: {:?}", q_text(case.opening), case.currency, ap), wit(json!({"output": imp.text})));
                return;
            }
        }
        for (k, (want, date, eff, charge, reference)) in expected.iter().enumerate() {
            let t = &imp.txns[k + 1];
            let what = |s: &str| format!("transaction {} ({} {}): {}", k + 1, date, want.to_string_exact(), s);
            let ap = acct_post(&t.posts);
            if ap.len() != 1 {
                rec.violation("account-posting-count", &class, &what(&format!("{} postings on the account", ap.len())), wit(json!({"output": imp.text})));
                return;
            }
            match &ap[0].amount {
                Some((v, c)) if v == want && *c == case.currency => {}
                other => {
                    let clause = match other {
                        Some((v, _)) if *v == want.neg() => "sign-flipped",
                        _ => "amount-differs",
                    };
                    rec.violation(clause, &class, &what(&format!("account posting is {:?}", other.as_ref().map(|(v, c)| format!("{} {}", v.to_string_exact(), c)))), wit(json!({"output": imp.text})));
                    return;
                }
            }
            if t.date != *date || t.effective_date != *eff {
                let clause = if t.date == eff.unwrap_or(*date) && t.effective_date == Some(*date) { "dates-swapped" } else { "dates-differ" };
                rec.violation(clause, &class, &what(&format!("dated {} (effective {:?}), expected value date {} with booking date {:?} as effective date", t.date, t.effective_date, date, eff)), wit(json!({"output": imp.text})));
                return;
            }
            if reference.is_some() && t.code != *reference {
                // the statement does not speak of codes: observed, not judged
                rec.count("note:reference-not-kept-as-code");
            }
            let is_last = k + 1 == expected.len();
            match (&ap[0].assertion, is_last) {
                (Some((v, c)), true) if *v == case.closing && *c == case.currency => {}
                (None, false) => {}
                (other, _) => {
                    rec.violation(
                        "closing-balance-on-wrong-transaction",
                        &format!("{}|{}", class, if is_last { "missing-on-last" } else { "on-earlier" }),
                        &what(&format!("assertion {:?}; the closing balance {} belongs on the last transaction only", other.as_ref().map(|(v, c)| format!("{} {}", v.to_string_exact(), c)), q_text(case.closing))),
                        wit(json!({"output": imp.text})),
                    );
                    return;
                }
            }
            if and_map_rule {
                if let Some(info) = plain_entry_info.get(&k) {
                    let fired = t.posts.iter().any(|p| p.account == "Expenses:AndMap");
                    let want = info == "Money Bank";
                    if fired != want {
                        rec.violation(
                            "and-map-rule-differs",
                            &format!("{}|{}", class, if want { "must-fire" } else { "must-not-fire" }),
                            &what(&format!("entry information `{}`: the rule `additional_entry_info: (?P<payee>.+)` + `payee: ^Money Bank$` {} fire", info, if want { "did not" } else { "did" })),
                            wit(json!({"output": imp.text})),
                        );
                        return;
                    }
                    rec.count(if fired { "and-map-rule:fired" } else { "and-map-rule:not-fired" });
                }
            }
            if pending_rule {
                // the counter-posting of every record: the salary rule's account unflagged, otherwise
                // the catch-all rule's account (or an Unknown account), flagged pending
                let counter: Vec<&TreePosting> = t.posts.iter().filter(|p| p.account != case.account && p.account != "Expenses:Commissions").collect();
                for p in counter {
                    if p.account == "Expenses:AndMap" {
                        continue;
                    }
                    let salary = p.account == "Income:Salary";
                    let pending = p.state == '!' || t.state == '!';
                    if salary == pending {
                        rec.violation(
                            "pending-mark-differs",
                            &format!("{}|{}", class, if salary { "cleared-rule" } else { "pending-rule" }),
                            &what(&format!("counter-posting to {} is {}marked pending (transaction state `{}`, posting state `{}`)", p.account, if pending { "" } else { "not " }, t.state, p.state)),
                            wit(json!({"output": imp.text})),
                        );
                        return;
                    }
                    rec.count(if pending { "counter-posting:pending" } else { "counter-posting:cleared" });
                }
            }
            let comm: Vec<&TreePosting> = t.posts.iter().filter(|p| p.account == "Expenses:Commissions").collect();
            match (charge, comm.as_slice()) {
                (None, []) => {}
                (Some(c), [p]) if matches!(&p.amount, Some((v, cm)) if v == c && *cm == case.currency) => rec.count("detail:with-included-charge"),
                _ => {
                    // how a charge is booked is not laid down by the statement; whether the result still
                    // balances and ends at the closing balance is (end-to-end clause below)
                    rec.count("note:charge-posting-differs-from-sample-convention");
                }
            }
        }
        rec.count("tree-agrees");
        // end to end
        let ledger = format!("2000/01/01 funding\n    {}    {} {}\n    Equity:Opening\n\n{}", case.account, q_text(case.opening), case.currency, imp.text);
        let files = vec![(ops::ROOT.to_string(), ledger.clone())];
        rec.op("report::process (funding + import output)", &ledger);
        let Some(r) = guarded(rec, || run_code(&files, ops::ROOT)) else { return };
        match r {
            Err(e) => rec.violation("imported-ledger-rejected", &format!("{}|{}", e.kind, class), &format!("book-keeping rejects the ledger imported from a consistent statement: {}", e.message), json!({"config": case.config_yaml, "xml": case.xml, "ledger": ledger, "error": e.rendered})),
            Ok(l) => {
                let got = l.balances.get(&case.account).and_then(|m| m.get(&case.currency)).copied().unwrap_or(Q::ZERO);
                if got != case.closing {
                    rec.violation("final-balance-differs", &class, &format!("the account ends at {} {}, the closing balance is {}", got.to_string_exact(), case.currency, q_text(case.closing)), json!({"xml": case.xml, "ledger": ledger}));
                } else {
                    rec.count("end-to-end:accepted-and-ends-at-closing-balance");
                }
            }
        }
        if rec.wants_sample() {
            rec.sample(json!({"xml_head": case.xml.chars().take(1500).collect::<String>(), "output": imp.text}));
        }
    }
    fn rule(&self) -> String {
        "Each case: a consistent single-currency statement (CHF/EUR/USD): opening balance, 1-8 entries (40% credits) with booking date, value date absent / equal / \
         different (as date or date-time), no details, one detail or a batch of 2-4 details whose signed sum is the entry (one detail in five of a batch carries the \
         opposite credit/debit indicator), included charges on one detail in six (a quarter of them credited rebates) with TxAmt = amount -/+ charge, references, party names, remittance and \
         additional info; closing balance = opening + credits - debits; file in either order with the matching row_order. Rendered as camt.053.001.04 XML. Oracle on \
         the tree: first transaction posts 0 and asserts the opening balance; then one transaction per entry or per detail in chronological order, the account posting \
         positive for credit and negative for debit by the entry's / detail's own indicator, dated by value date (booking date when absent) with the booking date as \
         effective date when different, the closing balance asserted on the last \
         transaction and nowhere else. End to end: funding transaction + printed import output is accepted by report::process and ends the account at the closing \
         balance. Non-trivial = imported statement; distinct by XML."
            .to_string()
    }
    fn assumptions(&self) -> Vec<String> {
        vec![
            "'details sum to the entry' is the signed sum (a debit entry may contain a credit detail)".into(),
            "included charges are only generated on details, with TxAmt = amount minus (debit) / plus (credit) the charge, as in the repository's sample statement".into(),
            "the date of the opening-balance transaction is not specified and not checked".into(),
        ]
    }
    fn min_nontrivial(&self, tier: Tier) -> u64 {
        tier.pick(8_000, 300_000)
    }
}
