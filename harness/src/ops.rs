//! Thin wrappers around okane's public API used by several checks.

use std::collections::HashMap;
use std::path::{Path, PathBuf};

use bumpalo::Bump;
use okane_core::load::{self, FakeFileSystem, Loader};
use okane_core::report::{self, query, ReportContext};

pub const ROOT: &str = "/mem/root.ledger";

/// Error chain rendered the way the CLI prints it (`Display` of the error and its sources).
pub fn render_error(err: &dyn std::error::Error) -> String {
    let mut out = err.to_string();
    let mut cur = err;
    while let Some(src) = cur.source() {
        out.push_str("\nCaused by ");
        out.push_str(&src.to_string());
        cur = src;
    }
    out
}

pub fn fake_loader(files: &[(String, String)], root: &str) -> Loader<FakeFileSystem> {
    let map: HashMap<PathBuf, Vec<u8>> = files
        .iter()
        .map(|(p, c)| (PathBuf::from(p), c.as_bytes().to_vec()))
        .collect();
    Loader::new(PathBuf::from(root), FakeFileSystem::from(map)).with_error_renderer(annotate_snippets::Renderer::plain())
}

pub fn real_loader(root: &Path) -> Loader<load::ProdFileSystem> {
    load::new_loader(root.to_path_buf()).with_error_renderer(annotate_snippets::Renderer::plain())
}

/// Amount as a sorted list of (commodity, value-as-string with its scale).
pub fn amount_pairs(a: &report::Amount) -> Vec<(String, rust_decimal::Decimal)> {
    let mut v: Vec<(String, rust_decimal::Decimal)> = a
        .clone()
        .into_values()
        .into_iter()
        .map(|(c, d)| (c.as_str().to_string(), d))
        .collect();
    v.sort_by(|x, y| x.0.cmp(&y.0));
    v
}

/// Runs `report::process` on an in-memory file set and hands the outcome to `f`.
pub fn with_processed<T>(
    files: &[(String, String)],
    root: &str,
    price_db: Option<&Path>,
    f: impl for<'a> FnOnce(&mut ReportContext<'a>, Result<&mut query::Ledger<'a>, &report::ReportError>) -> T,
) -> T {
    let arena = Bump::new();
    let mut ctx = ReportContext::new(&arena);
    let loader = fake_loader(files, root);
    let opts = report::ProcessOptions {
        price_db_path: price_db.map(|p| p.to_path_buf()),
    };
    let r = report::process(&mut ctx, loader, &opts);
    match r {
        Ok(mut ledger) => f(&mut ctx, Ok(&mut ledger)),
        Err(e) => f(&mut ctx, Err(&e)),
    }
}

pub fn with_processed_real<T>(
    root: &Path,
    price_db: Option<&Path>,
    f: impl for<'a> FnOnce(&mut ReportContext<'a>, Result<&mut query::Ledger<'a>, &report::ReportError>) -> T,
) -> T {
    let arena = Bump::new();
    let mut ctx = ReportContext::new(&arena);
    let loader = real_loader(root);
    let opts = report::ProcessOptions {
        price_db_path: price_db.map(|p| p.to_path_buf()),
    };
    let r = report::process(&mut ctx, loader, &opts);
    match r {
        Ok(mut ledger) => f(&mut ctx, Ok(&mut ledger)),
        Err(e) => f(&mut ctx, Err(&e)),
    }
}

/// Files under /repo used as seed corpus (read at run time from the current working tree).
pub fn seed_ledgers() -> Vec<(String, String)> {
    let mut out = Vec::new();
    for dir in ["/repo/testdata", "/repo/cli/tests/testdata"] {
        let mut stack = vec![PathBuf::from(dir)];
        while let Some(d) = stack.pop() {
            let Ok(rd) = std::fs::read_dir(&d) else { continue };
            let mut entries: Vec<_> = rd.filter_map(|e| e.ok()).map(|e| e.path()).collect();
            entries.sort();
            for p in entries {
                if p.is_dir() {
                    stack.push(p);
                } else if p.extension().and_then(|e| e.to_str()) == Some("ledger") {
                    if let Ok(s) = std::fs::read_to_string(&p) {
                        out.push((p.to_string_lossy().into_owned(), s));
                    }
                }
            }
        }
    }
    out.sort();
    out
}
